#!/usr/bin/env python3
"""Import candidate seeded changes written by sub-agents after confirming them.
usage: import_seeded.py <out-dir> <round> <ID>/<mX> ...
<out-dir>/<ID>/<mX>/ holds patch.diff, demo.rs, notes.json. Runs tools/validate_seeded.sh
(scratch worktree outside /repo and /verif) and copies confirmed ones to seeded/<ID>-<mX>/."""
import json, os, re, shutil, subprocess, sys
out, rnd, names = sys.argv[1], int(sys.argv[2]), sys.argv[3:]
r = subprocess.run(["/verif/tools/validate_seeded.sh", out] + names, capture_output=True, text=True)
print(r.stdout[-4000:])
for line in r.stdout.splitlines():
    m = re.match(r"RESULT (\S+) suite_green=(\S+) demo_with_patch_exit=(\d+) demo_without_patch_exit=(\d+)", line)
    if not m:
        if line.startswith("RESULT"): print("NOT CONFIRMED:", line)
        continue
    name, green, w, wo = m.group(1), m.group(2), int(m.group(3)), int(m.group(4))
    if not (green == "yes" and w != 0 and wo == 0):
        print("NOT CONFIRMED:", line); continue
    pid, mx = name.split("/")
    src = os.path.join(out, name); dst = f"/verif/seeded/{pid}-{mx}"
    os.makedirs(dst, exist_ok=True)
    shutil.copy(os.path.join(src, "patch.diff"), dst); shutil.copy(os.path.join(src, "demo.rs"), dst)
    try: notes = json.load(open(os.path.join(src, "notes.json")))
    except Exception as e: notes = {"summary": "(notes.json unreadable: %s)" % e}
    head = subprocess.run(["git", "-C", "/repo", "rev-parse", "--short", "HEAD"], capture_output=True, text=True).stdout.strip()
    meta = {"id": f"{pid}-{mx}", "breaks_property": pid, "round": rnd,
            "summary": notes.get("summary", ""), "needs_to_manifest": notes.get("needs_to_manifest", ""),
            "files_changed": notes.get("files_changed", []),
            "origin": f"independent sub-agent given only the property text, generic guidance on what kind of trigger to prefer, and its own scratch worktree of /repo at {head}; nothing from /verif",
            "author_verification": notes.get("author_verification", ""),
            "confirmed_by_me": {"how": "tools/validate_seeded.sh in a scratch worktree of /repo (outside /repo and /verif): git apply patch.diff; cargo test --offline; copy demo.rs to tests/demo.rs; cargo test --offline [--features verif_hooks] --test demo; git checkout -- src; same demo again",
                                "repo_suite_green_with_patch": True, "demo_exit_with_patch": w, "demo_exit_without_patch": wo}}
    json.dump(meta, open(os.path.join(dst, "meta.json"), "w"), indent=1)
    print("IMPORTED", dst)
