#!/bin/bash
# For each behaviour-preserving patch: apply to /repo, run EVERY quick check, revert. Any exit != 0 is a false alarm.
# usage: refactor_matrix.sh <dir-with-<name>/patch.diff> ...
cd /verif
ALL=$(python3 -c "import json;print(' '.join(c['property_id'] for c in json.load(open('MANIFEST.json'))['checks']))")
for d in "$@"; do
  name=$(basename $(dirname $d))/$(basename $d)
  if [ -n "$(git -C /repo status --porcelain)" ]; then echo "/repo not clean"; exit 2; fi
  git -C /repo apply "$d/patch.diff" || { echo "RESULT $name patch-does-not-apply"; continue; }
  bad=""
  for id in $ALL; do
    ./check $id quick > /tmp/refactor_$id.log 2>&1; rc=$?
    if [ $rc -ne 0 ]; then bad="$bad $id(exit$rc:$(grep -m1 -E '^  key=|^MACHINERY' /tmp/refactor_$id.log | cut -c1-160))"; fi
  done
  git -C /repo checkout -- . ; git -C /repo clean -fdq -- tests 2>/dev/null
  echo "RESULT $name alarms:${bad:- none}"
done
