#!/bin/bash
# Confirm, in a scratch worktree outside /repo and /verif, that each candidate change
# (a) applies, (b) keeps the repository's own suite green, (c) makes its demonstration fail,
# and that (d) the demonstration passes without the change. Usage: validate_seeded.sh <src-dir> <name>...
# where <src-dir>/<name>/ holds patch.diff + demo.rs. Prints one RESULT line per candidate.
SRC="$1"; shift
WT=/tmp/seed-validate-wt
export CARGO_TARGET_DIR=/tmp/seed-validate-target
export CARGO_NET_OFFLINE=true
git -C /repo worktree remove --force "$WT" 2>/dev/null
git -C /repo worktree add -q --detach "$WT" HEAD || exit 2
for name in "$@"; do
  d="$SRC/$name"
  cd "$WT" && git checkout -q -- . && rm -rf tests
  if ! git apply "$d/patch.diff" 2>/dev/null; then echo "RESULT $name patch-does-not-apply"; continue; fi
  suite=$(cargo test --offline 2>&1 | grep -E "^test result" | tr '\n' ' ')
  suite_ok=no; echo "$suite" | grep -q "187 passed; 0 failed" && echo "$suite" | grep -q "7 passed; 0 failed" && suite_ok=yes
  feat=""; grep -q "verif_hooks" "$d/demo.rs" && feat="--features verif_hooks"
  mkdir -p tests && cp "$d/demo.rs" tests/demo.rs
  timeout 600 cargo test --offline $feat --test demo >/tmp/seed-demo-with.log 2>&1; with=$?
  git checkout -q -- src Cargo.toml 2>/dev/null
  timeout 600 cargo test --offline $feat --test demo >/tmp/seed-demo-without.log 2>&1; without=$?
  echo "RESULT $name suite_green=$suite_ok demo_with_patch_exit=$with demo_without_patch_exit=$without features='$feat'"
done
cd / && git -C /repo worktree remove --force "$WT"; rm -rf /tmp/seed-validate-target
