#!/usr/bin/env python3
import json, jsonschema, sys, glob
m = json.load(open('/verif/MANIFEST.json'))
jsonschema.validate(m, json.load(open('/root/.vp/MANIFEST.schema.json')))
es = json.load(open('/root/.vp/EVIDENCE.schema.json'))
bad = 0
for c in m['checks']:
    try:
        jsonschema.validate(json.load(open(c['evidence_file'])), es)
    except Exception as e:
        bad += 1
        print('EVIDENCE INVALID', c['property_id'], str(e)[:300])
print('manifest ok;', len(m['checks']), 'checks;', bad, 'bad evidence files')
sys.exit(1 if bad else 0)
