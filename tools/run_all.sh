#!/bin/bash
# run every claimed check at a tier; print one line per check
TIER="${1:-quick}"
cd /verif
for id in $(python3 -c "import json;print(' '.join(c['property_id'] for c in json.load(open('MANIFEST.json'))['checks']))"); do
  s=$(date +%s.%N)
  ./check $id $TIER > /tmp/run_all_$id.log 2>&1
  rc=$?
  e=$(date +%s.%N)
  printf "%s exit=%s wall=%.1fs known=%s viol=%s | %s\n" $id $rc $(echo "$e - $s" | bc) $(grep -c '^KNOWN-FINDING' /tmp/run_all_$id.log) $(grep -c '^VIOLATION' /tmp/run_all_$id.log) "$(grep -E "^$id $TIER" /tmp/run_all_$id.log | cut -c1-120)"
  grep -E "^MACHINERY" /tmp/run_all_$id.log | head -3
done
