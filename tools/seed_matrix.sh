#!/bin/bash
# For every seeded change: apply it to /repo, run the quick check(s), revert. Prints a markdown table.
#   tools/seed_matrix.sh own          only the check of the property the change was written against
#   tools/seed_matrix.sh all          every claimed check (slow: ~36 x 2 min)
MODE="${1:-own}"
cd /verif
ALL=$(python3 -c "import json;print(' '.join(c['property_id'] for c in json.load(open('MANIFEST.json'))['checks']))")
echo "| change | what it does | caught by (quick tier) | first key |"
echo "|---|---|---|---|"
for d in seeded/*/; do
  name=$(basename $d); own=${name%%-*}
  if [ -n "$(git -C /repo status --porcelain)" ]; then echo "/repo not clean" >&2; exit 2; fi
  git -C /repo apply "/verif/$d/patch.diff" || { echo "| $name | patch does not apply | | |"; continue; }
  ids="$own"; [ "$MODE" = "all" ] && ids="$ALL"
  caught=""; key=""
  for id in $ids; do
    ./check $id quick > /tmp/seed_matrix.log 2>&1; rc=$?
    if [ $rc -eq 1 ]; then caught="$caught $id"; [ -z "$key" ] && key=$(grep -m1 -E '^  key=' /tmp/seed_matrix.log | sed -E 's/^  key=([^ ]*) .*/\1/' | cut -c1-70); fi
    if [ $rc -ge 2 ]; then caught="$caught $id(exit$rc)"; fi
  done
  git -C /repo checkout -- . ; git -C /repo clean -fdq -- tests 2>/dev/null
  sum=$(python3 -c "import json;print(json.load(open('$d/meta.json'))['summary'][:110].replace('|','/'))")
  echo "| $name | $sum | ${caught:- none} | \`$key\` |"
done
