#!/usr/bin/env python3
"""Regenerate /verif/MANIFEST.json from the table below and the list of checks the harness
actually implements (`vh list`)."""
import json, subprocess, os, sys
ROOT = os.path.dirname(os.path.dirname(os.path.abspath(__file__)))

CHECKS = {
 "C01": dict(technique="bounded exhaustive enumeration of input strings (fragment alphabet, length bound) + depth ladder, invariant: returns Ok/Err",
   text="Every string of <= L fragments over an alphabet with one fragment per tokenizer class (incl. 2/3/4-byte characters) and every sequence of <= 5 (6) tokens over 30 spellings (incl. an unterminated quote and a malformed number) is fed to parse_expression, expr(), describe() and execute under catch_unwind in sharded worker processes (crash/hang bisected to the single input); 14 recursive shapes are run at sizes 2^1..2^17 in fresh processes on an 8 MiB stack. Complete within the bound, nothing sampled.",
   note="Totality beyond L fragments / beyond the ladder is not decided; memory exhaustion out of scope; stack exhaustion at depth >= 2^14 is a recorded known finding.", design="§4 C01"),
 "C10": dict(technique="bounded exhaustive enumeration of input strings under 3 operator configurations, compared token-by-token with a reference lexer (model) + tiling invariants",
   text="Every string of <= L fragments under three operator sets (built-ins, registered symbolic chains, registered word/non-identifier operators), also with the strings tokenised once BEFORE the operators are registered; the engine's token stream (tokenize hook) must satisfy the tiling invariants and equal the reference lexer's stream; every model trace is compared with the implementation.",
   note="Operator sets as listed in the evidence; non-prefix-closed symbolic operators are outside the documented rule; rust_decimal's text parser trusted for digit strings.", design="§4 C10"),
 "C02": dict(technique="bounded exhaustive enumeration of expression trees and token sequences, engine AST compared with a reference precedence-climbing parser (model)",
   text="Every AST with <= 2 (thorough 3) infix nodes over all 32 built-in infix operators in every shape, every AST with <= 3 operator nodes over 15 representative infix operators plus `not OP`, prefix, postfix, conditional, call, list, map and statement chains, printed by the model printer (minimal and full parentheses), and every token sequence of <= 5 (6) tokens the reference parser accepts: the engine must return exactly the model's AST. The model's operator table is the documented one.",
   note="Grouping decisions are pairwise, so 3 nested nodes cover every outer/middle/inner combination; larger expressions are not enumerated. The greedy reading of the optional ';' is assumed.", design="§4 C02"),
 "C05": dict(technique="bounded exhaustive enumeration of token sequences, fragment strings and single-edit corruptions, judged by a reference recogniser (model); reject-side agreement",
   text="Every sequence of <= 5 (6) tokens over 28 spellings (space-separated and glued), <= 6 (7) over a 15-spelling delimiter/separator sub-alphabet, every string of <= 4 (5) fragments, every single-token / single-character corruption of the valid program set, and every sequence of <= 5 tokens after a word operator of each kind has been registered (with and without the word having been parsed before): whatever the reference grammar rejects the engine must reject.",
   note="Inputs longer than the bound and corruptions of distance > 1 are not enumerated; the reference grammar is lenient exactly where the property is (optional ';', one trailing comma in list/map).", design="§4 C05"),
 "C11": dict(technique="bounded exhaustive enumeration of layouts (whitespace at every token boundary, redundant parentheses at every subexpression) of an enumerated program set; metamorphic AST equality",
   text="For every program of the shared tree set: every token boundary x every whitespace string of the tier (added, replaced, and removed where the tokens stay apart), all boundaries at once, leading/trailing; a grid of up to 100 earlier postfix statements x up to 100 redundant pairs / 300-character whitespace runs; every subexpression wrapped in 1..3 redundant pairs and every pair of subexpressions wrapped once. The AST must equal that of the original text.",
   note="Programs of <= 3 operator nodes; whitespace strings of length <= 2; paren multiplicity <= 3.", design="§4 C11"),
 "C12": dict(technique="bounded exhaustive enumeration of parser-produced ASTs (incl. forced shapes via full parenthesisation, mirrored children) and of operator re-registration histories; round-trip oracle",
   text="For every AST the parser returns on the program set (minimal, full and mirrored-full renderings) and on every accepted token sequence of <= 5 (6) tokens: parse(expr(t)) == t and expr() is idempotent. Plus every history of <= 3 re-registrations of an infix operator (fresh process each) with the round trip after each step.",
   note="Names are not operator words; trees of <= 3 operator nodes; re-registration histories of one operator over 4 (precedence, associativity) settings.", design="§4 C12"),
 "C03": dict(technique="bounded exhaustive enumeration of operator applications over a value alphabet, compared with a reference evaluator (model)",
   text="Every infix operator x every ordered pair of a 46-value alphabet covering every variant and every edge the handlers branch on (operands as context variables and as literal text), every prefix/postfix operator x V, aggregates over every argument list of length 0..3, conditional / list / map / membership over V^2 and all depth-2 compositions over a sub-alphabet: engine result must equal the reference evaluator's (value or Err).",
   note="Values outside the alphabet and compositions deeper than 2 are not enumerated; rust_decimal's checked ops define decimal arithmetic (C09 checks exactness independently).", design="§4 C03"),
 "C04": dict(technique="exhaustive enumeration of the fault product (operators x edge operands) in two builds (release and dev), oracle: no unwind + agreement with a checked-arithmetic reference evaluator",
   text="Zero divisors in every spelling, operands within one step of Decimal::MAX/MIN and at 28-digit scale, shift counts around 0, 63/64, 2^31, 2^32, 2^63 and fractional/scaled counts, non-integral / scaled / out-of-i64 bit operands, empty aggregates and every ill-typed operand pair, all evaluated in a release build and in a dev build (overflow checks on): never a panic, never a wrapped/masked number.",
   note="The edge lattice, not all decimals. The harness dev profile (opt-level 1, overflow checks and debug assertions on) stands for the debug build.", design="§4 C04"),
 "C09": dict(technique="bounded exhaustive enumeration of literal texts and operand pairs on edge lattices, compared with an independent exact 256-bit integer decimal oracle (model)",
   text="~1000 edge mantissas x every scale 0..28 x value-preserving spellings must evaluate to exactly (mantissa, scale); malformed literals must be rejected; all ordered pairs of 175 edge operands and the complete square of small operands under + - * % < <= > >= == != and compound forms must equal the exact result whenever it fits 96 bits / 28 places.",
   note="A finite lattice of the 2^96 x 29 domain; carry chains inside rust_decimal beyond the lattice are trusted; results that do not fit are skipped (C04).", design="§4 C09"),
 "C17": dict(technique="exhaustive enumeration (all values of 8/16-bit types) and boundary-lattice enumeration of conversions, oracles independent of rust_decimal arithmetic",
   text="From<i8|u8|i16|u16> on all values, wider integer types on the +-2^k, +-10^k, MIN/MAX, 2^96 lattice plus contiguous runs at type boundaries (release and dev build), From<f32|f64> on mantissa patterns x every exponent and on whole numbers (which must convert exactly), integer() on a (mantissa, scale, sign) lattice against integer division, every accessor x every variant, From round trips for strings, booleans, decimals, lists.",
   note="Out-of-range i128/u128/f32/f64 and non-finite floats becoming 0 are recorded known findings (infallible From); float conversion judged to DBL_DIG/FLT_DIG digits.", design="§4 C17"),
 "C06": dict(technique="explicit-state breadth-first search over (context, statement) transitions with canonical-state de-duplication; every transition executed on the real engine and on a reference evaluator (model)",
   text="States are contexts, transitions are 46 statements (plain / all 10 compound assignments, failing statements, reads, nested and chained assignments, non-name targets, assignments inside call arguments and list literals, a global function name used as a variable) from 6 initial contexts, breadth-first to depth 4 (5). Each transition is run statement-by-statement on one Context, as one whole program, and (compound forms) against its expansion; results and complete context contents must equal the reference.",
   note="Two to three names, depth 4 (5); merged states have equal futures because the canonical form holds every binding the evaluator can observe.", design="§4 C06"),
 "C07": dict(technique="bounded exhaustive enumeration of expression trees with observable handlers x every error-injection position, call log compared with a reference evaluator (model)",
   text="Every tree of <= 3 (4) inner nodes over 16 evaluating node kinds with logging leaves (context functions by call and by bare name) and logging registered operators / functions, un-faulted and with an Err injected at every handler invocation index: call log (names and argument values), result and final bindings must equal the reference (left to right, once each, selected branch only, nothing after the failing invocation).",
   note="<= 3 (4) inner nodes; every parent/child kind pair at every child position appears from 2 nodes on.", design="§4 C07"),
 "C15": dict(technique="exhaustive fault enumeration (program x handler invocation index x {Err, panic}) on the real engine with post-fault invariants, reference evaluator (model) for the truncated log",
   text="Every program of the effects set x every invocation index k x {return Err, return the Err of a nested evaluation, panic}: log equals the reference log truncated after k, Err gives Err, a panic reaches the caller as an unwind, and afterwards a 12-expression battery over all four registries (this thread and a new thread) and the same Context (get / get_variable / set_variable / exec, contents equal to the reference) behave as if the evaluation had just stopped.",
   note="<= 3 (4) inner nodes; handler kinds: context function by call and bare name, global function, registered prefix / infix / setter / postfix operators.", design="§4 C15"),
 "C18": dict(technique="exhaustive enumeration of all 2^14 descriptor-registration subsets x enumerated ASTs, compared with a reference rendering (model)",
   text="All 16384 subsets of 14 (kind, name) registrations whose names are deliberately shared across kinds, reached through the clear hook + public setters (and the empty / singleton / full configurations also in fresh processes without the hook), crossed with every AST of <= 2 (3) operator nodes over 16 node kinds: describe() must equal the reference rendering (registered marker or documented default); each (kind, name) re-registered over a decoy; and describe() racing set_*_descriptor under the C13 scheduler (all schedules with <= 2 (3) preemptions).",
   note="Names limited to two per named kind; ASTs of <= 2 (3) operator nodes.", design="§4 C18"),
 "C08": dict(technique="exhaustive enumeration of registration histories (one fresh process per history, probe batteries at every placement) and of operator tables, compared with a registry model + reference lexer/parser/evaluator instantiated with the same table",
   text="Every history of <= 2 (3) operations over 16 registration operations with every placement of probe batteries (before first use, between, after), every history of 3 (4) operations with 4 placements, each in a fresh process; a battery = 32 expressions x up to 4 contexts (AST, rendering round trip, value/tag). Plus ~450 operator tables with one or two new infix operators at adjacent / extreme precedences, every `a X b Y c [Z d]` over new operators and one built-in per level.",
   note="History length <= 3 (4); two new operators per table; same-precedence/opposite-associativity pairs excluded (undefined); registered symbolic operators prefix-closed.", design="§4 C08"),
 "C14": dict(technique="exhaustive enumeration of the handler-kind x re-entrant-action product on the real engine, one fresh process per case; owner-tracking hook mutex turns a self re-lock into a deterministic verdict",
   text="12 handler kinds x 13 re-entrant actions x 2 entry points (parse+exec, execute): 312 cases: parse, execute, execute a global function, the same handler nested to depth 2 and 3, each register_* function, re-registering itself, and for context functions locking / writing / evaluating on the evaluating context. The outer evaluation must return its normal value; a re-lock by the owning thread is reported by the hook mutex, a hang by the wall cap.",
   note="Nesting depth 3; locking the evaluating context is promised for context functions only.", design="§4 C14"),
 "C16": dict(technique="exhaustive enumeration of call histories without state merging (in-process and in fresh processes), every call compared with a stateless reference evaluator (model) and registry snapshots",
   text="All histories of <= 3 (4) operations over {parse, execute on fresh context, exec on long-lived context A / B} x 18 programs (no de-duplication: hidden state must not be merged away), every single operation and ordered pair as the first calls of a fresh process, ~4000 histories with one register_infix_op at every position (fresh process each), and 484 long histories (100 repetitions of one program, parse errors included, then every operation on another): every call's result and context equal the same call made alone, A and B never interact, the registry snapshot never changes under parse/exec.",
   note="Depth 3 (4); leakage needing more calls (a cache with larger capacity) is out of bound; concurrent isolation is covered by the C13 explorer's workloads.", design="§4 C16"),
 "C13": dict(technique="stateless preemption-bounded exploration (CHESS-style iterative context bounding) of real threads under a controlled baton scheduler, one fresh process per schedule; brute-force linearizability against all sequential orders",
   text="15 workloads of 2-3 real threads plus post-join calls by the main thread (first use x2 / x3, first use vs override of a built-in, vs new infix operator, vs registrations as first calls, concurrent re-registration, prefix/postfix registration, isolated contexts) run under a scheduler that owns every choice: scheduling points at every Mutex::lock, OnceCell::get_or_init, init stage, thread start/end; all schedules with <= 3 (4) preemptions for 2 threads and <= 1 (2) for 3 threads; per-thread results must equal some sequential order of the calls (orders executed in fresh processes), no panic, no deadlock; replay divergence and uncontrolled blocking are machinery errors.",
   note="Sound because the crate is unsafe-free and shares state only through Mutex/OnceCell (driver greps for anything else); sequential consistency assumed; std Mutex and once_cell trusted; <= 3 threads, <= 2 calls each. The non-atomicity of one evaluation against two registrations is a recorded known finding (W5).", design="§4 C13"),
}

def main():
    exe = os.path.join(ROOT, "harness/target/release/vh")
    have = subprocess.run([exe, "list"], capture_output=True, text=True).stdout.split()
    props = [json.loads(l) for l in open(os.path.join(ROOT, "properties.jsonl"))]
    checks, na = [], []
    for p in props:
        pid = p["id"]
        if pid in have and pid in CHECKS:
            c = CHECKS[pid]
            checks.append({
                "property_id": pid,
                "quick_cmd": f"./check {pid} quick",
                "thorough_cmd": f"./check {pid} thorough",
                "evidence_file": f"/verif/evidence/{pid}.json",
                "replay_cmd_template": f"./check {pid} --replay {{path}}",
                "engine": "vh",
                "level_claimed": {"category": "model_checking", "text": c["text"], "design_ref": c["design"]},
                "level_note": c["note"],
                "technique": c["technique"],
            })
        else:
            na.append({"property_id": pid, "reason": "check not built yet in this session (planned in DESIGN.md §4); not claimed until it runs clean"})
    m = {
        "version": 1,
        "setup_cmd": "./check --setup",
        "hooks": {
            "guard": "cargo feature verif_hooks (cfg(feature = \"verif_hooks\"))",
            "enable": "the harness crate depends on /repo by path with features = [\"verif_hooks\"]; cargo rebuilds from /repo's working tree on every ./check",
            "baseline_off_cmd": "cd /repo && cargo test --workspace --no-fail-fast --offline",
            "source_commits": subprocess.run(["git", "-C", "/repo", "log", "--format=%h %s", "--grep=^verif hook"], capture_output=True, text=True).stdout.strip().split("\n"),
            "add_only": True,
        },
        "engines": [{"name": "vh", "path": "/verif/harness", "serves_properties": [c["property_id"] for c in checks],
                     "kind_free_text": "hand-rolled bounded exhaustive explorer in Rust: range-sharded worker processes over enumerated input/history/schedule spaces, reference model (lexer, parser, evaluator, registries) compared on every case, CHESS-style preemption-bounded scheduler over real threads"}],
        "checks": checks,
        "not_applicable": na,
        "notes": "All checks: exit 0 held (KNOWN-FINDING lines for entries of known_findings.txt), exit 1 + VIOLATION line, exit 2 machinery problem. See DESIGN.md.",
    }
    json.dump(m, open(os.path.join(ROOT, "MANIFEST.json"), "w"), indent=1)
    print("checks:", [c["property_id"] for c in checks], "not claimed:", [n["property_id"] for n in na])

main()
