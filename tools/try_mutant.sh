#!/bin/bash
# usage: tools/try_mutant.sh <patch.diff> <ID> [<ID>...]   (applies to /repo, runs quick checks, always reverts)
P="$1"; shift
cd /repo || exit 2
if [ -n "$(git status --porcelain)" ]; then echo "/repo not clean"; exit 2; fi
git apply "$P" || { echo "patch does not apply"; exit 2; }
trap 'git -C /repo checkout -- . ; git -C /repo clean -fdq -- tests 2>/dev/null' EXIT
cd /verif
for id in "$@"; do
  ./check "$id" quick > /tmp/try_mutant_$id.log 2>&1
  rc=$?
  echo "== $id exit=$rc $(grep -c '^VIOLATION' /tmp/try_mutant_$id.log) violations; $(grep -E '^  key=' /tmp/try_mutant_$id.log | head -3 | tr '\n' ' ')"
  grep -E "MACHINERY" /tmp/try_mutant_$id.log | head -3
done
