//! Thin adapter around the engine's public API: every call runs under catch_unwind
//! and results are converted into the model's data types for comparison.
use crate::model::parse::Ast;
use expression_engine::{parse_expression, ExprAST};
use std::panic::{catch_unwind, AssertUnwindSafe};

#[derive(Debug, Clone, PartialEq)]
pub enum Res<T> {
    Ok(T),
    Err(String),
    Panic(String),
}

impl<T> Res<T> {
    pub fn class(&self) -> &'static str {
        match self {
            Res::Ok(_) => "ok",
            Res::Err(_) => "err",
            Res::Panic(_) => "panic",
        }
    }
    pub fn is_ok(&self) -> bool {
        matches!(self, Res::Ok(_))
    }
}

pub fn panic_msg(p: Box<dyn std::any::Any + Send>) -> String {
    if let Some(s) = p.downcast_ref::<&str>() {
        s.to_string()
    } else if let Some(s) = p.downcast_ref::<String>() {
        s.clone()
    } else {
        "non-string panic payload".to_string()
    }
}

pub fn guarded<T>(f: impl FnOnce() -> Result<T, String>) -> Res<T> {
    match catch_unwind(AssertUnwindSafe(f)) {
        Ok(Ok(v)) => Res::Ok(v),
        Ok(Err(e)) => Res::Err(e),
        Err(p) => Res::Panic(panic_msg(p)),
    }
}

pub fn conv(a: &ExprAST) -> Ast {
    use expression_engine::ExprAST as E;
    match a {
        E::Literal(l) => {
            // Literal is a private type behind a public enum variant: go through Debug-free matching
            conv_literal(l)
        }
        E::Unary(op, x) => Ast::Unary(op.to_string(), Box::new(conv(x))),
        E::Binary(op, l, r) => Ast::Binary(op.to_string(), Box::new(conv(l)), Box::new(conv(r))),
        E::Postfix(x, op) => Ast::Postfix(Box::new(conv(x)), op.clone()),
        E::Ternary(c, x, y) => Ast::Ternary(Box::new(conv(c)), Box::new(conv(x)), Box::new(conv(y))),
        E::Reference(n) => Ast::Ref(n.to_string()),
        E::Function(n, args) => Ast::Func(n.to_string(), args.iter().map(conv).collect()),
        E::List(v) => Ast::List(v.iter().map(conv).collect()),
        E::Map(v) => Ast::Map(v.iter().map(|(k, x)| (conv(k), conv(x))).collect()),
        E::Stmt(v) => Ast::Stmt(v.iter().map(conv).collect()),
        E::None => Ast::Stmt(vec![]),
    }
}

/// The literal type lives in a private module; its Debug form is
/// `Number(<decimal>)`, `Bool(<bool>)` or `String("<escaped>")`, but evaluating a
/// literal node is the loss-free way to read it back.
fn conv_literal<T: std::fmt::Debug>(l: &T) -> Ast {
    let s = format!("{:?}", l);
    if let Some(rest) = s.strip_prefix("Number(") {
        let body = &rest[..rest.len() - 1];
        return Ast::Num(body.parse().expect("decimal debug form"));
    }
    if let Some(rest) = s.strip_prefix("Bool(") {
        return Ast::Bool(&rest[..rest.len() - 1] == "true");
    }
    if let Some(rest) = s.strip_prefix("String(") {
        let body = &rest[..rest.len() - 1];
        return Ast::Str(unescape_debug(body));
    }
    panic!("unknown literal debug form {}", s)
}

/// inverse of `<str as Debug>::fmt`
pub fn unescape_debug(s: &str) -> String {
    let inner = &s[1..s.len() - 1];
    let mut out = String::new();
    let mut it = inner.chars().peekable();
    while let Some(c) = it.next() {
        if c != '\\' {
            out.push(c);
            continue;
        }
        match it.next() {
            Some('n') => out.push('\n'),
            Some('r') => out.push('\r'),
            Some('t') => out.push('\t'),
            Some('0') => out.push('\0'),
            Some('\\') => out.push('\\'),
            Some('"') => out.push('"'),
            Some('\'') => out.push('\''),
            Some('u') => {
                let mut hex = String::new();
                it.next(); // {
                for h in it.by_ref() {
                    if h == '}' {
                        break;
                    }
                    hex.push(h);
                }
                out.push(char::from_u32(u32::from_str_radix(&hex, 16).unwrap()).unwrap());
            }
            Some(o) => out.push(o),
            None => {}
        }
    }
    out
}

pub fn parse(input: &str) -> Res<Ast> {
    guarded(|| parse_expression(input).map(|t| conv(&t)).map_err(|e| format!("{:?}", e)))
}

/// parse and also return expr() and describe() of the tree (each guarded on its own)
pub struct Parsed {
    pub ast: Ast,
    pub expr: Res<String>,
    pub describe: Res<String>,
}

pub fn parse_full(input: &str) -> Res<Parsed> {
    guarded(|| {
        let t = parse_expression(input).map_err(|e| format!("{:?}", e))?;
        let ast = conv(&t);
        let expr = guarded(|| Ok(t.expr()));
        let describe = guarded(|| Ok(t.describe()));
        Ok(Parsed { ast, expr, describe })
    })
}

pub fn tokenize(input: &str) -> Res<Vec<(String, String, usize, usize)>> {
    guarded(|| {
        expression_engine::verif_hooks::tokenize(input)
            .map(|v| v.into_iter().map(|(k, t, a, b)| (k.to_string(), t, a, b)).collect())
            .map_err(|e| format!("{:?}", e))
    })
}

pub fn execute(input: &str, ctx: expression_engine::Context) -> Res<expression_engine::Value> {
    guarded(|| expression_engine::execute(input, ctx).map_err(|e| format!("{:?}", e)))
}

/// a second handle to the same context (the public field is the shared map)
pub fn share(ctx: &expression_engine::Context) -> expression_engine::Context {
    let mut c = expression_engine::Context::new();
    c.0 = ctx.0.clone();
    c
}
