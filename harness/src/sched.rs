//! Controlled scheduler (child side): real OS threads serialised by a baton. Every
//! synchronisation operation of the engine (hook events) is a scheduling point; between two
//! points exactly one thread runs, so an execution is fully determined by the sequence of
//! choices, all of which are made here (replayed prefix, then the default "keep running the
//! current thread, else the lowest enabled id"). A thread whose next operation would block
//! (mutex held, once-cell being initialised by someone else) is *disabled*, never spinning.
use expression_engine::verif_hooks::sync::{self, Event};
use serde_json::json;
use std::cell::Cell;
use std::collections::{BTreeMap, BTreeSet};
use std::sync::{Arc, Condvar, Mutex};

thread_local! {
    static TID: Cell<usize> = const { Cell::new(usize::MAX) };
}

#[derive(Clone, Copy, PartialEq, Eq, Debug)]
enum Want {
    Nothing,
    Lock(usize),
    Once(usize),
}

#[derive(Clone, Copy, PartialEq, Eq, Debug)]
enum Status {
    NotStarted,
    Parked,
    Running,
    Finished,
}

#[derive(Clone, Debug)]
pub struct Point {
    /// thread that was running when the decision was taken (usize::MAX for the start decision)
    pub running: usize,
    pub kind: &'static str,
    pub obj: String,
    pub enabled: Vec<usize>,
    pub chosen: usize,
    /// could the running thread have continued?
    pub cur_enabled: bool,
}

pub struct State {
    n: usize,
    current: usize,
    status: Vec<Status>,
    want: Vec<Want>,
    held: BTreeMap<usize, usize>,
    initing: BTreeMap<usize, usize>,
    cell_set: BTreeSet<usize>,
    choices: Vec<usize>,
    pos: usize,
    pub trace: Vec<Point>,
    pub deadlock: Option<String>,
    pub diverged: Option<String>,
    pub steps: u64,
    /// mutex ids seen per init stage (0: prefix, 1: infix, 2: postfix, 3: functions)
    stage_now: Option<u32>,
    pub stage_mutex: BTreeMap<usize, u32>,
    pub init_done: bool,
    /// registries (by init stage index) the workload writes after initialisation
    write_set: BTreeSet<u32>,
    reduce: bool,
    /// context-mutex id -> threads that touched it
    pub local_touch: BTreeMap<usize, BTreeSet<usize>>,
    pub noncandidate_points: u64,
    progress: u64,
    /// threads that stopped making progress while holding the baton without reaching a
    /// scheduling point (blocked on / spinning at a primitive the hooks do not wrap)
    foreign: Vec<bool>,
    pub foreign_blocks: u64,
    /// has the thread that was handed the baton woken up and taken it? (a thread that is
    /// merely slow to wake must not be mistaken for one that blocks outside the hooks)
    acked: bool,
}

pub struct Sched {
    st: Mutex<State>,
    cv: Condvar,
}

impl Sched {
    pub fn new(n: usize, choices: Vec<usize>, write_set: BTreeSet<u32>, reduce: bool) -> Arc<Sched> {
        Arc::new(Sched {
            st: Mutex::new(State {
                n,
                current: usize::MAX,
                status: vec![Status::NotStarted; n],
                want: vec![Want::Nothing; n],
                held: BTreeMap::new(),
                initing: BTreeMap::new(),
                cell_set: BTreeSet::new(),
                choices,
                pos: 0,
                trace: Vec::new(),
                deadlock: None,
                diverged: None,
                steps: 0,
                stage_now: None,
                stage_mutex: BTreeMap::new(),
                init_done: false,
                write_set,
                reduce,
                local_touch: BTreeMap::new(),
                noncandidate_points: 0,
                progress: 0,
                foreign: vec![false; n],
                foreign_blocks: 0,
                acked: true,
            }),
            cv: Condvar::new(),
        })
    }

    pub fn lock_state(&self) -> std::sync::MutexGuard<'_, State> {
        self.st.lock().unwrap_or_else(|e| e.into_inner())
    }

    pub fn progress(&self) -> u64 {
        self.lock_state().progress
    }

    fn satisfiable(s: &State, t: usize) -> bool {
        match s.want[t] {
            Want::Nothing => true,
            Want::Lock(id) => !s.held.contains_key(&id),
            Want::Once(id) => s.cell_set.contains(&id) || !s.initing.contains_key(&id),
        }
    }

    fn enabled(s: &State, running: usize) -> Vec<usize> {
        // canonical order: the running thread first if it can continue, then ascending ids
        let mut v = Vec::new();
        if running < s.n && s.status[running] != Status::Finished && Self::satisfiable(s, running) {
            v.push(running);
        }
        for t in 0..s.n {
            if t != running && matches!(s.status[t], Status::Parked) && !s.foreign[t] && Self::satisfiable(s, t) {
                v.push(t);
            }
        }
        v
    }

    /// take one decision; returns the chosen thread (None: nobody can run)
    fn decide(s: &mut State, running: usize, kind: &'static str, obj: String) -> Option<usize> {
        let enabled = Self::enabled(s, running);
        let cur_enabled = enabled.first() == Some(&running);
        if enabled.is_empty() {
            if (0..s.n).any(|t| s.foreign[t] && s.status[t] != Status::Finished) {
                // nobody can run right now, but a thread that is blocked outside the hooks may
                // still come back (whoever it waits for may already have released it): the
                // baton is left free for it
                s.current = usize::MAX;
                return None;
            }
            if s.status.iter().any(|x| *x != Status::Finished) {
                let who: Vec<String> = (0..s.n)
                    .filter(|t| s.status[*t] != Status::Finished)
                    .map(|t| format!("T{} waits for {:?}", t, s.want[t]))
                    .collect();
                s.deadlock = Some(format!("no enabled thread at a '{}' point: {}", kind, who.join(", ")));
            }
            return None;
        }
        let idx = if s.pos < s.choices.len() {
            let c = s.choices[s.pos];
            if c >= enabled.len() {
                s.diverged = Some(format!("replayed choice {} at decision {} but only {} threads are enabled", c, s.pos, enabled.len()));
                0
            } else {
                c
            }
        } else {
            0
        };
        s.pos += 1;
        let chosen = enabled[idx];
        s.trace.push(Point { running, kind, obj, enabled, chosen, cur_enabled });
        Some(chosen)
    }

    /// hand the baton to `chosen` and wait until it comes back to `me`
    fn switch_and_wait(&self, mut s: std::sync::MutexGuard<'_, State>, me: usize, chosen: usize) {
        if chosen != me {
            s.status[me] = Status::Parked;
            s.status[chosen] = Status::Running;
            s.current = chosen;
            s.acked = false;
            self.cv.notify_all();
            while s.current != me {
                s = self.cv.wait(s).unwrap_or_else(|e| e.into_inner());
            }
            s.acked = true;
            s.progress += 1;
        }
        s.status[me] = Status::Running;
        // the want recorded at the point is now granted
        match s.want[me] {
            Want::Lock(id) => {
                s.held.insert(id, me);
            }
            Want::Once(_) | Want::Nothing => {}
        }
        s.want[me] = Want::Nothing;
    }

    /// a scheduling point of thread `me`
    fn point(&self, me: usize, kind: &'static str, want: Want, obj: String, candidate: bool) {
        let mut s = self.lock_state();
        s.steps += 1;
        s.progress += 1;
        s.want[me] = want;
        if s.current != me && s.current == usize::MAX && s.deadlock.is_none() {
            // revived, and the baton is free: take it and decide like a running thread
            s.foreign[me] = false;
            s.status[me] = Status::Running;
            s.current = me;
            s.acked = true;
        }
        if s.current != me {
            // this thread had been given up as blocked on something the hooks do not see and has
            // now come back to a scheduling point: it parks like any other thread and waits
            // for the baton (no decision is taken here)
            s.foreign[me] = false;
            s.status[me] = Status::Parked;
            self.cv.notify_all();
            while s.current != me {
                if s.deadlock.is_some() {
                    drop(s);
                    loop {
                        std::thread::park();
                    }
                }
                s = self.cv.wait(s).unwrap_or_else(|e| e.into_inner());
            }
            s.acked = true;
            s.progress += 1;
            s.status[me] = Status::Running;
            if let Want::Lock(id) = s.want[me] {
                s.held.insert(id, me);
            }
            s.want[me] = Want::Nothing;
            return;
        }
        if s.deadlock.is_some() {
            // the run is over; park forever (the main thread reports and exits)
            drop(s);
            loop {
                std::thread::park();
            }
        }
        if !candidate && Self::satisfiable(&s, me) {
            // commutes with everything the other threads do: no decision, keep running
            s.noncandidate_points += 1;
            if let Want::Lock(id) = want {
                s.held.insert(id, me);
            }
            s.want[me] = Want::Nothing;
            return;
        }
        if (0..s.n).any(|t| s.foreign[t] && s.status[t] != Status::Finished) {
            // a thread given up as blocked outside the hooks may just have been released: give
            // it a moment to reach its next scheduling point, so that it is (reproducibly) part
            // of this decision rather than of some later one
            drop(s);
            std::thread::sleep(std::time::Duration::from_millis(4));
            s = self.lock_state();
        }
        match Self::decide(&mut s, me, kind, obj) {
            Some(chosen) => self.switch_and_wait(s, me, chosen),
            None if s.deadlock.is_none() => {
                // blocked, and only foreign-blocked threads could change that: wait for the baton
                s.status[me] = Status::Parked;
                self.cv.notify_all();
                while s.current != me {
                    if s.deadlock.is_some() {
                        drop(s);
                        loop {
                            std::thread::park();
                        }
                    }
                    s = self.cv.wait(s).unwrap_or_else(|e| e.into_inner());
                }
                s.acked = true;
                s.progress += 1;
                s.status[me] = Status::Running;
                if let Want::Lock(id) = s.want[me] {
                    s.held.insert(id, me);
                }
                s.want[me] = Want::Nothing;
            }
            None => {
                self.cv.notify_all();
                drop(s);
                loop {
                    std::thread::park();
                }
            }
        }
    }

    /// called by a workload thread before its first call
    pub fn thread_start(&self, me: usize) {
        TID.with(|t| t.set(me));
        let mut s = self.lock_state();
        s.status[me] = Status::Parked;
        s.progress += 1;
        self.cv.notify_all();
        while s.current != me {
            s = self.cv.wait(s).unwrap_or_else(|e| e.into_inner());
        }
        s.acked = true;
        s.progress += 1;
        s.status[me] = Status::Running;
    }

    /// called by a workload thread after its last call
    pub fn thread_end(&self, me: usize) {
        let mut s = self.lock_state();
        let was_current = s.current == me;
        s.status[me] = Status::Finished;
        s.want[me] = Want::Nothing;
        s.foreign[me] = false;
        s.progress += 1;
        TID.with(|t| t.set(usize::MAX));
        if s.status.iter().all(|x| *x == Status::Finished) {
            s.current = usize::MAX;
            self.cv.notify_all();
            return;
        }
        if !was_current {
            // a thread given up as foreign-blocked ran to its end on its own; if the baton is
            // free, somebody it was blocking may be able to run now
            if s.current == usize::MAX {
                if let Some(chosen) = Self::decide(&mut s, usize::MAX, "thread-end", String::new()) {
                    s.status[chosen] = Status::Running;
                    s.current = chosen;
            s.acked = false;
                }
            }
            self.cv.notify_all();
            return;
        }
        match Self::decide(&mut s, me, "thread-end", String::new()) {
            Some(chosen) => {
                s.status[chosen] = Status::Running;
                s.current = chosen;
            s.acked = false;
                self.cv.notify_all();
            }
            None => {
                self.cv.notify_all();
            }
        }
    }

    /// Watchdog (main thread): the baton holder has made no progress for a while without reaching
    /// a scheduling point — it blocks on, or spins at, a primitive the hooks do not wrap. It is
    /// marked foreign-blocked and the baton goes to another enabled thread (a recorded decision);
    /// when it comes back to a scheduling point it parks like any other thread. Returns false
    /// if nobody else can run (then the execution is stuck for good).
    pub fn give_up_on_current(&self) -> bool {
        let mut s = self.lock_state();
        let me = s.current;
        if me >= s.n || s.status[me] == Status::Finished || s.deadlock.is_some() {
            return false;
        }
        if !s.acked {
            // it has been handed the baton but has not woken up yet: slow, not blocked
            return true;
        }
        s.foreign[me] = true;
        s.foreign_blocks += 1;
        s.status[me] = Status::Parked;
        match Self::decide(&mut s, usize::MAX, "foreign-block", format!("T{} blocked outside the hooks", me)) {
            Some(chosen) => {
                s.status[chosen] = Status::Running;
                s.current = chosen;
            s.acked = false;
                s.progress += 1;
                self.cv.notify_all();
                true
            }
            None => {
                // (decide() recorded a deadlock: every other thread is finished, waiting or blocked)
                self.cv.notify_all();
                false
            }
        }
    }

    /// main thread: wait until all threads are parked at their start, take the first decision
    pub fn start_all(&self) {
        let mut s = self.lock_state();
        while s.status.iter().any(|x| *x == Status::NotStarted) {
            s = self.cv.wait(s).unwrap_or_else(|e| e.into_inner());
        }
        if let Some(chosen) = Self::decide(&mut s, usize::MAX, "start", String::new()) {
            s.status[chosen] = Status::Running;
            s.current = chosen;
            s.acked = false;
        }
        self.cv.notify_all();
    }

    /// main thread: wait for completion, deadlock, or divergence
    pub fn wait_done(&self) -> bool {
        let mut s = self.lock_state();
        loop {
            if s.deadlock.is_some() {
                return false;
            }
            if s.status.iter().all(|x| *x == Status::Finished) {
                return true;
            }
            let (g, _) = self.cv.wait_timeout(s, std::time::Duration::from_millis(50)).unwrap_or_else(|e| e.into_inner());
            s = g;
        }
    }

    fn registry_of(s: &State, id: usize) -> Option<u32> {
        s.stage_mutex.get(&id).copied()
    }

    /// the hook listener
    pub fn on_event(&self, e: Event) {
        let me = TID.with(|t| t.get());
        // bookkeeping that also applies to untracked (main-thread, warm-up) activity
        {
            let mut s = self.lock_state();
            match e {
                Event::InitStage { stage } => {
                    s.stage_now = if stage < 4 { Some(stage) } else { None };
                    if stage == 4 {
                        s.init_done = true;
                    }
                }
                Event::LockBefore { id } => {
                    if let Some(st) = s.stage_now {
                        // the registry filled during this stage
                        if sync::label_of(id).contains("src/operator.rs") || sync::label_of(id).contains("src/function.rs") {
                            s.stage_mutex.entry(id).or_insert(st);
                        }
                    }
                }
                _ => {}
            }
        }
        if me == usize::MAX {
            // untracked thread (setup / warm-up): keep the lock model consistent, no scheduling
            let mut s = self.lock_state();
            match e {
                Event::OnceInitDone { id } => {
                    s.cell_set.insert(id);
                }
                Event::OnceBefore { id, set: true } => {
                    s.cell_set.insert(id);
                }
                _ => {}
            }
            return;
        }
        match e {
            Event::LockBefore { id } => {
                let label = sync::label_of(id);
                let candidate = {
                    let mut s = self.lock_state();
                    if label.contains("src/context.rs") {
                        // per-thread contexts by construction of the workloads (verified afterwards)
                        s.local_touch.entry(id).or_default().insert(me);
                        false
                    } else if s.reduce && s.init_done {
                        match Self::registry_of(&s, id) {
                            Some(r) => s.write_set.contains(&r),
                            None => true,
                        }
                    } else {
                        true
                    }
                };
                self.point(me, "lock", Want::Lock(id), label, candidate);
            }
            Event::LockAcquired { .. } => {}
            Event::Unlock { id } => {
                let mut s = self.lock_state();
                s.held.remove(&id);
                s.progress += 1;
                if s.current == usize::MAX && s.deadlock.is_none() {
                    // released by a thread running outside the baton: a waiter may be enabled now
                    if let Some(chosen) = Self::decide(&mut s, usize::MAX, "unlock-outside-baton", String::new()) {
                        s.status[chosen] = Status::Running;
                        s.current = chosen;
            s.acked = false;
                        self.cv.notify_all();
                    }
                }
            }
            Event::OnceBefore { id, set } => {
                let known_set = {
                    let mut s = self.lock_state();
                    if set {
                        s.cell_set.insert(id);
                    }
                    s.cell_set.contains(&id)
                };
                // reading a cell that is already set commutes with everything
                self.point(me, "once", Want::Once(id), sync::label_of(id), !known_set);
            }
            Event::OnceInitStart { id } => {
                let mut s = self.lock_state();
                s.initing.insert(id, me);
            }
            Event::OnceInitDone { id } => {
                let mut s = self.lock_state();
                s.initing.remove(&id);
                s.cell_set.insert(id);
            }
            Event::InitStage { stage } => {
                self.point(me, "init-stage", Want::Nothing, format!("stage {}", stage), true);
            }
        }
    }

    pub fn report(&self) -> serde_json::Value {
        let s = self.lock_state();
        let shared_contexts: Vec<usize> = s.local_touch.iter().filter(|(_, v)| v.len() > 1).map(|(k, _)| *k).collect();
        json!({
            "points": s.trace.iter().map(|p| json!({
                "r": if p.running == usize::MAX { -1i64 } else { p.running as i64 },
                "k": p.kind,
                "o": p.obj.split(' ').next().unwrap_or("").rsplit('/').next().unwrap_or(""),
                "n": p.enabled.len(),
                "c": p.enabled.iter().position(|t| *t == p.chosen).unwrap_or(0),
                "t": p.chosen,
                "ce": p.cur_enabled,
            })).collect::<Vec<_>>(),
            "deadlock": s.deadlock,
            "diverged": s.diverged,
            "steps": s.steps,
            "noncandidates": s.noncandidate_points,
            "shared_contexts": shared_contexts,
            "registries_identified": s.stage_mutex.len(),
            "foreign_blocks": s.foreign_blocks,
        })
    }
}
