//! Enumerators: strings over a fragment alphabet (random access by index),
//! mixed-radix products, small expression trees.

/// All concatenations of 0..=max_len fragments, addressed by a single index:
/// lengths are laid out one after the other (length 0 first).
pub struct Strings {
    pub alphabet: Vec<String>,
    pub max_len: u32,
}

impl Strings {
    pub fn new(alphabet: &[&str], max_len: u32) -> Strings {
        Strings { alphabet: alphabet.iter().map(|s| s.to_string()).collect(), max_len }
    }
    pub fn len(&self) -> u64 {
        let n = self.alphabet.len() as u64;
        (0..=self.max_len).map(|l| n.pow(l)).sum()
    }
    /// fragment indices of case i
    pub fn indices(&self, mut i: u64) -> Vec<usize> {
        let n = self.alphabet.len() as u64;
        let mut l = 0u32;
        loop {
            let block = n.pow(l);
            if i < block {
                break;
            }
            i -= block;
            l += 1;
        }
        let mut v = vec![0usize; l as usize];
        for k in (0..l as usize).rev() {
            v[k] = (i % n) as usize;
            i /= n;
        }
        v
    }
    pub fn get(&self, i: u64) -> String {
        self.indices(i).iter().map(|k| self.alphabet[*k].as_str()).collect()
    }
    /// number of enumeration-tree nodes (= strings) and edges
    pub fn states_transitions(&self) -> (u64, u64) {
        let s = self.len();
        (s, s - 1)
    }
}

/// Decode index i into digits of the given radices (first radix most significant).
pub fn mixed_radix(mut i: u64, radices: &[u64]) -> Vec<u64> {
    let mut v = vec![0; radices.len()];
    for k in (0..radices.len()).rev() {
        v[k] = i % radices[k];
        i /= radices[k];
    }
    v
}

pub fn show(s: &str) -> String {
    format!("{:?}", s)
}
