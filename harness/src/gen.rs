//! Enumerators: strings over a fragment alphabet (random access by index),
//! mixed-radix products, small expression trees.

/// All concatenations of 0..=max_len fragments, addressed by a single index:
/// lengths are laid out one after the other (length 0 first).
pub struct Strings {
    pub alphabet: Vec<String>,
    pub max_len: u32,
}

impl Strings {
    pub fn new(alphabet: &[&str], max_len: u32) -> Strings {
        Strings { alphabet: alphabet.iter().map(|s| s.to_string()).collect(), max_len }
    }
    pub fn len(&self) -> u64 {
        let n = self.alphabet.len() as u64;
        (0..=self.max_len).map(|l| n.pow(l)).sum()
    }
    /// fragment indices of case i
    pub fn indices(&self, mut i: u64) -> Vec<usize> {
        let n = self.alphabet.len() as u64;
        let mut l = 0u32;
        loop {
            let block = n.pow(l);
            if i < block {
                break;
            }
            i -= block;
            l += 1;
        }
        let mut v = vec![0usize; l as usize];
        for k in (0..l as usize).rev() {
            v[k] = (i % n) as usize;
            i /= n;
        }
        v
    }
    pub fn get(&self, i: u64) -> String {
        self.indices(i).iter().map(|k| self.alphabet[*k].as_str()).collect()
    }
    /// number of enumeration-tree nodes (= strings) and edges
    pub fn states_transitions(&self) -> (u64, u64) {
        let s = self.len();
        (s, s - 1)
    }
}

/// Decode index i into digits of the given radices (first radix most significant).
pub fn mixed_radix(mut i: u64, radices: &[u64]) -> Vec<u64> {
    let mut v = vec![0; radices.len()];
    for k in (0..radices.len()).rev() {
        v[k] = i % radices[k];
        i /= radices[k];
    }
    v
}

pub fn show(s: &str) -> String {
    format!("{:?}", s)
}

// ---------------------------------------------------------------------------
// expression trees

use crate::model::parse::Ast;
use rust_decimal::Decimal;

#[derive(Clone, Debug)]
pub enum Kind {
    Infix(String),
    /// `x not OP y`
    NotInfix(String),
    Prefix(String),
    Postfix(String),
    Ternary,
    Call(usize),
    List(usize),
    Map(usize),
}

impl Kind {
    fn arity(&self) -> usize {
        match self {
            Kind::Infix(_) | Kind::NotInfix(_) => 2,
            Kind::Prefix(_) | Kind::Postfix(_) => 1,
            Kind::Ternary => 3,
            Kind::Call(n) | Kind::List(n) => *n,
            Kind::Map(n) => 2 * n,
        }
    }
    fn build(&self, mut ch: Vec<Ast>) -> Option<Ast> {
        Some(match self {
            Kind::Infix(op) => {
                let r = ch.pop()?;
                let l = ch.pop()?;
                Ast::Binary(op.clone(), Box::new(l), Box::new(r))
            }
            Kind::NotInfix(op) => {
                let r = ch.pop()?;
                let l = ch.pop()?;
                Ast::Unary("not".into(), Box::new(Ast::Binary(op.clone(), Box::new(l), Box::new(r))))
            }
            Kind::Prefix(op) => {
                let x = ch.pop()?;
                // prefix `not` over an infix node is the same AST as the infix-not form
                if op == "not" && matches!(x, Ast::Binary(..)) {
                    return None;
                }
                Ast::Unary(op.clone(), Box::new(x))
            }
            Kind::Postfix(op) => Ast::Postfix(Box::new(ch.pop()?), op.clone()),
            Kind::Ternary => {
                let c = ch.pop()?;
                let b = ch.pop()?;
                let a = ch.pop()?;
                Ast::Ternary(Box::new(a), Box::new(b), Box::new(c))
            }
            Kind::Call(_) => Ast::Func("f".into(), ch),
            Kind::List(_) => Ast::List(ch),
            Kind::Map(_) => {
                let mut v = Vec::new();
                let mut it = ch.into_iter();
                while let (Some(k), Some(x)) = (it.next(), it.next()) {
                    v.push((k, x));
                }
                Ast::Map(v)
            }
        })
    }
}

/// all ways to write n as an ordered sum of r non-negative integers
fn compositions(n: usize, r: usize) -> Vec<Vec<usize>> {
    if r == 0 {
        return if n == 0 { vec![vec![]] } else { vec![] };
    }
    let mut out = Vec::new();
    for first in 0..=n {
        for mut rest in compositions(n - first, r - 1) {
            rest.insert(0, first);
            out.push(rest);
        }
    }
    out
}

/// by_size[k] = all trees with exactly k operator nodes over `kinds`, with a placeholder leaf
pub fn trees_by_size(kinds: &[Kind], max: usize) -> Vec<Vec<Ast>> {
    let mut by_size: Vec<Vec<Ast>> = vec![vec![Ast::Ref("_".into())]];
    for n in 1..=max {
        let mut cur = Vec::new();
        for k in kinds {
            let r = k.arity();
            for comp in compositions(n - 1, r) {
                // cartesian product of children choices
                let mut partial: Vec<Vec<Ast>> = vec![vec![]];
                for sz in &comp {
                    let mut next = Vec::new();
                    for p in &partial {
                        for c in &by_size[*sz] {
                            let mut q = p.clone();
                            q.push(c.clone());
                            next.push(q);
                        }
                    }
                    partial = next;
                }
                for ch in partial {
                    if let Some(t) = k.build(ch) {
                        cur.push(t);
                    }
                }
            }
        }
        by_size.push(cur);
    }
    by_size
}

pub fn leaf_rotation() -> Vec<Ast> {
    vec![
        Ast::Ref("a".into()),
        Ast::Num(Decimal::new(1, 0)),
        Ast::Ref("b".into()),
        Ast::Str("s t".into()),
        Ast::Ref("c.d".into()),
        Ast::Num(Decimal::new(250, 2)),
        Ast::Bool(true),
        Ast::Func("g".into(), vec![]),
        Ast::Ref("e_1".into()),
        Ast::Str("q\"(".into()),
        Ast::Num(Decimal::new(5, 0)),
        Ast::Str("b\\s\tn\nr".into()),
        // multi-byte text (2, 3 and 4 bytes per character): whatever follows it in a program sits
        // at a byte offset that differs from its character index
        Ast::Str("\u{e9}\u{20ac} \u{1f600}".into()),
        Ast::Ref("\u{e9}".into()),
        // a name that is one character Unicode calls whitespace and the language does not
        Ast::Ref("\u{a0}".into()),
        // a literal that ends in a backslash: there are no escapes, so the quote after it closes
        // the literal (inside parentheses, lists and calls as well)
        Ast::Str("C:\\".into()),
    ]
}

/// replace placeholder leaves, left to right, by the atoms of the rotation
pub fn relabel(t: &Ast, next: &mut usize, rot: &[Ast]) -> Ast {
    let mut go = |x: &Ast, next: &mut usize| relabel(x, next, rot);
    match t {
        Ast::Ref(n) if n == "_" => {
            let a = rot[*next % rot.len()].clone();
            *next += 1;
            a
        }
        Ast::Unary(op, x) => Ast::Unary(op.clone(), Box::new(go(x, next))),
        Ast::Postfix(x, op) => Ast::Postfix(Box::new(go(x, next)), op.clone()),
        Ast::Binary(op, l, r) => {
            let l2 = go(l, next);
            let r2 = go(r, next);
            Ast::Binary(op.clone(), Box::new(l2), Box::new(r2))
        }
        Ast::Ternary(a, b, c) => {
            let a2 = go(a, next);
            let b2 = go(b, next);
            let c2 = go(c, next);
            Ast::Ternary(Box::new(a2), Box::new(b2), Box::new(c2))
        }
        Ast::Func(n, v) => Ast::Func(n.clone(), v.iter().map(|x| go(x, next)).collect()),
        Ast::List(v) => Ast::List(v.iter().map(|x| go(x, next)).collect()),
        Ast::Stmt(v) => Ast::Stmt(v.iter().map(|x| go(x, next)).collect()),
        Ast::Map(v) => Ast::Map(
            v.iter()
                .map(|(k, x)| {
                    let k2 = go(k, next);
                    let x2 = go(x, next);
                    (k2, x2)
                })
                .collect(),
        ),
        other => other.clone(),
    }
}

pub const ALL_INFIX: &[&str] = &[
    "=", "+=", "-=", "*=", "/=", "%=", "<<=", ">>=", "&=", "^=", "|=", "||", "&&", "<", "<=", ">", ">=", "==", "!=",
    "|", "^", "&", "<<", ">>", "+", "-", "*", "/", "%", "beginWith", "endWith", "in",
];

/// one or two representatives per (level, associativity, type), both setter groups kept
pub const REP_INFIX: &[&str] = &["=", "<<=", "||", "&&", "<", "==", "|", "^", "&", "<<", "+", "-", "*", "%", "in"];

pub fn mixed_kinds() -> Vec<Kind> {
    let mut k: Vec<Kind> = REP_INFIX.iter().map(|o| Kind::Infix(o.to_string())).collect();
    for o in ["in", "==", "+", "&&", "="] {
        k.push(Kind::NotInfix(o.to_string()));
    }
    for o in ["-", "!", "not", "AND"] {
        k.push(Kind::Prefix(o.to_string()));
    }
    k.push(Kind::Postfix("++".into()));
    k.push(Kind::Ternary);
    k.push(Kind::Call(1));
    k.push(Kind::Call(2));
    k.push(Kind::List(1));
    k.push(Kind::List(2));
    k.push(Kind::Map(1));
    k
}

/// The program set shared by C02 / C11 / C12 / C05-corruptions, as relabelled ASTs.
/// `level`: 0 = quick, 1 = thorough.
pub fn program_trees(level: u32) -> Vec<Ast> {
    let rot = leaf_rotation();
    let mut out = Vec::new();
    let push = |t: &Ast, out: &mut Vec<Ast>| {
        // small trees get every rotation offset, so that every leaf kind (name, number,
        // string, call, ...) appears under every shape; larger ones the first offset only
        let offsets = if crate::model::parse::count_nodes(t) <= 2 { rot.len() } else { 1 };
        for off in 0..offsets {
            let mut n = off;
            out.push(relabel(t, &mut n, &rot));
        }
    };
    // F1: pure infix over all 32 operators
    let all: Vec<Kind> = ALL_INFIX.iter().map(|o| Kind::Infix(o.to_string())).collect();
    let f1 = trees_by_size(&all, if level == 0 { 2 } else { 3 });
    for sz in &f1 {
        for t in sz {
            push(t, &mut out);
        }
    }
    if level == 0 {
        let rep: Vec<Kind> = REP_INFIX.iter().map(|o| Kind::Infix(o.to_string())).collect();
        let f1b = trees_by_size(&rep, 3);
        for t in &f1b[3] {
            push(t, &mut out);
        }
    }
    // F2: mixed node kinds
    let f2 = trees_by_size(&mixed_kinds(), 3);
    for (n, sz) in f2.iter().enumerate() {
        if n == 0 {
            continue;
        }
        for t in sz {
            push(t, &mut out);
        }
    }
    // statement chains of small trees
    let small: Vec<&Ast> = f2[0].iter().chain(f2[1].iter()).collect();
    for (i, t1) in small.iter().enumerate() {
        for t2 in small.iter().skip(i % 3).step_by(3) {
            push(&Ast::Stmt(vec![(*t1).clone(), (*t2).clone()]), &mut out);
        }
    }
    // wide nodes: lists, calls, maps, chains and operator chains of 4..65 elements
    for n in [4usize, 5, 8, 9, 16, 17, 33, 65] {
        let leaf = |i: usize| rot[i % rot.len()].clone();
        let items: Vec<Ast> = (0..n).map(leaf).collect();
        out.push(Ast::List(items.clone()));
        out.push(Ast::Func("f".into(), items.clone()));
        out.push(Ast::Stmt(items.clone()));
        out.push(Ast::Map((0..n).map(|i| (leaf(2 * i), leaf(2 * i + 1))).collect()));
        let mut left = leaf(0);
        let mut right = leaf(n - 1);
        for i in 1..n {
            left = Ast::Binary(if i % 2 == 0 { "+".into() } else { "-".into() }, Box::new(left), Box::new(leaf(i)));
            right = Ast::Binary("=".into(), Box::new(Ast::Ref(format!("v{}", n - 1 - i))), Box::new(right));
        }
        out.push(left);
        out.push(right);
    }
    out.push(Ast::Stmt(vec![]));
    out
}
