//! Shared machinery: tiers, failures, worker output, the range-sharded orchestrator
//! (worker processes, bisect on crash / hang), known findings, evidence files.
use serde_json::{json, Map, Value as J};
use std::collections::{BTreeMap, BTreeSet};
use std::io::Read;
use std::process::{Command, Stdio};
use std::time::{Duration, Instant};

#[derive(Clone, Copy, PartialEq, Eq, Debug)]
pub enum Tier {
    Quick,
    Thorough,
}

impl Tier {
    pub fn parse(s: &str) -> Tier {
        match s {
            "thorough" => Tier::Thorough,
            _ => Tier::Quick,
        }
    }
    pub fn name(self) -> &'static str {
        match self {
            Tier::Quick => "quick",
            Tier::Thorough => "thorough",
        }
    }
    pub fn pick<T>(self, q: T, t: T) -> T {
        match self {
            Tier::Quick => q,
            Tier::Thorough => t,
        }
    }
}

/// One failing case, reduced to a class key computed from the *shape* of the case.
#[derive(Clone, Debug)]
pub struct Fail {
    /// (stage index, case index) of the failing case, when the check recorded it
    pub loc: Option<(usize, u64)>,
    pub key: String,
    /// replayable description of the case (stage + case text)
    pub case: String,
    pub detail: String,
}

#[derive(Default, Debug)]
pub struct WorkerOut {
    pub evals: u64,
    /// hashes of distinct non-trivial cases (rule stated per property)
    pub nontrivial: BTreeSet<u64>,
    /// first example per key, plus how many cases had that key
    pub fails: BTreeMap<String, (Fail, u64)>,
    pub samples: Vec<String>,
    pub counters: BTreeMap<String, u64>,
    /// distinct outcome classes seen (vacuity guard)
    pub outcomes: BTreeSet<String>,
    /// stage / case index being processed (copied into failures for replay)
    pub stage: Option<usize>,
    pub idx: Option<u64>,
    pub total_fails: u64,
}

/// index of the case the worker is processing and when it started (watchdog: a worker that
/// sits on one case of a multi-case chunk reports which one, so the parent need not bisect)
pub static CURRENT_CASE: std::sync::atomic::AtomicU64 = std::sync::atomic::AtomicU64::new(u64::MAX);
pub static CURRENT_SINCE_MS: std::sync::atomic::AtomicU64 = std::sync::atomic::AtomicU64::new(0);

pub fn now_ms() -> u64 {
    static T0: std::sync::OnceLock<Instant> = std::sync::OnceLock::new();
    T0.get_or_init(Instant::now).elapsed().as_millis() as u64
}

/// set in worker processes: a worker that has recorded this many failing cases prints what it
/// has and stops (the verdict of the run is decided; a change that breaks nearly every case
/// would otherwise spend most of its time formatting failures)
pub static KNOWN_OPEN_KEYS: std::sync::OnceLock<BTreeSet<String>> = std::sync::OnceLock::new();
pub static WORKER_FAIL_CAP: std::sync::atomic::AtomicU64 = std::sync::atomic::AtomicU64::new(u64::MAX);

impl WorkerOut {
    /// the worker starts case `i`
    pub fn at(&mut self, i: u64) {
        self.idx = Some(i);
        CURRENT_SINCE_MS.store(now_ms(), std::sync::atomic::Ordering::Relaxed);
        CURRENT_CASE.store(i, std::sync::atomic::Ordering::Relaxed);
    }
    pub fn fail(&mut self, key: impl Into<String>, case: impl Into<String>, detail: impl Into<String>) {
        let key = key.into();
        let case = case.into();
        let e = self.fails.entry(key.clone()).or_insert_with(|| {
            (
                Fail {
                    loc: None,
                    key: key.clone(),
                    case: case.clone(),
                    detail: String::new(),
                },
                0,
            )
        });
        e.1 += 1;
        // (cases of recorded known findings do not count: they occur on the unchanged tree)
        if !KNOWN_OPEN_KEYS.get().map(|k| k.contains(&key)).unwrap_or(false) {
            self.total_fails += 1;
        }
        if self.total_fails >= WORKER_FAIL_CAP.load(std::sync::atomic::Ordering::Relaxed) && !key.starts_with("machinery:") && !key.starts_with("generator:") {
            *self.counters.entry("workers_stopped_after_many_failures".to_string()).or_insert(0) += 1;
            println!("WORKER-RESULT {}", self.to_json());
            use std::io::Write;
            let _ = std::io::stdout().flush();
            std::process::exit(0);
        }
        let e = self.fails.get_mut(&key).unwrap();
        if e.1 == 1 || (case.len(), &case) < (e.0.case.len(), &e.0.case) {
            e.0 = Fail {
                loc: match (self.stage, self.idx) {
                    (Some(s), Some(i)) => Some((s, i)),
                    _ => None,
                },
                key,
                case,
                detail: detail.into(),
            };
        }
    }
    pub fn count(&mut self, name: &str, n: u64) {
        *self.counters.entry(name.to_string()).or_insert(0) += n;
    }
    pub fn sample(&mut self, s: impl Into<String>) {
        if self.samples.len() < 6 {
            self.samples.push(s.into());
        }
    }
    pub fn merge(&mut self, o: WorkerOut) {
        self.evals += o.evals;
        self.nontrivial.extend(o.nontrivial);
        for (k, (f, n)) in o.fails {
            let e = self.fails.entry(k).or_insert((f.clone(), 0));
            e.1 += n;
            // keep the simplest example: shortest case text, then lexicographically first
            if (f.case.len(), &f.case) < (e.0.case.len(), &e.0.case) {
                e.0 = f;
            }
        }
        for s in o.samples {
            if self.samples.len() < 12 {
                self.samples.push(s);
            }
        }
        for (k, v) in o.counters {
            *self.counters.entry(k).or_insert(0) += v;
        }
        self.outcomes.extend(o.outcomes);
    }
    pub fn to_json(&self) -> J {
        json!({
            "evals": self.evals,
            "nontrivial": self.nontrivial.iter().map(|h| format!("{:x}", h)).collect::<Vec<_>>(),
            "fails": self.fails.iter().map(|(k,(f,n))| json!({"key":k,"case":f.case,"detail":f.detail,"n":n,"stage":f.loc.map(|l| l.0),"idx":f.loc.map(|l| l.1)})).collect::<Vec<_>>(),
            "samples": self.samples,
            "counters": self.counters,
            "outcomes": self.outcomes,
        })
    }
    pub fn from_json(j: &J) -> Option<WorkerOut> {
        let mut o = WorkerOut::default();
        o.evals = j.get("evals")?.as_u64()?;
        for h in j.get("nontrivial")?.as_array()? {
            o.nontrivial.insert(u64::from_str_radix(h.as_str()?, 16).ok()?);
        }
        for f in j.get("fails")?.as_array()? {
            let key = f.get("key")?.as_str()?.to_string();
            o.fails.insert(
                key.clone(),
                (
                    Fail {
                        loc: match (f.get("stage").and_then(|x| x.as_u64()), f.get("idx").and_then(|x| x.as_u64())) {
                            (Some(s), Some(i)) => Some((s as usize, i)),
                            _ => None,
                        },
                        key,
                        case: f.get("case")?.as_str()?.to_string(),
                        detail: f.get("detail")?.as_str()?.to_string(),
                    },
                    f.get("n")?.as_u64()?,
                ),
            );
        }
        for s in j.get("samples")?.as_array()? {
            o.samples.push(s.as_str()?.to_string());
        }
        for (k, v) in j.get("counters")?.as_object()? {
            o.counters.insert(k.clone(), v.as_u64()?);
        }
        for s in j.get("outcomes")?.as_array()? {
            o.outcomes.insert(s.as_str()?.to_string());
        }
        Some(o)
    }
}

pub fn hash64(s: &str) -> u64 {
    // FNV-1a, deterministic across runs and processes
    let mut h: u64 = 0xcbf29ce484222325;
    for b in s.as_bytes() {
        h ^= *b as u64;
        h = h.wrapping_mul(0x100000001b3);
    }
    h
}

/// One enumerable sub-space of a property check.
pub struct Stage {
    pub name: String,
    /// number of cases; cases are addressed by index in [0, len)
    pub len: u64,
    /// cases per worker process (1 = every case in a fresh process)
    pub chunk: u64,
    /// wall cap for one worker process; on expiry the chunk is bisected
    pub timeout: Duration,
    /// what a case of this stage is (goes into the evidence "rule")
    pub what: String,
}

pub struct Plan {
    pub stages: Vec<Stage>,
    pub rule: String,
    pub assumptions: Vec<String>,
    pub exhaustive: bool,
    pub bound: String,
    /// states/transitions interpretation for the evidence file
    pub states_note: String,
}

pub trait Prop: Sync {
    fn id(&self) -> &'static str;
    fn plan(&self, tier: Tier) -> Plan;
    /// run cases [a, b) of stage `stage` in this process
    fn run(&self, tier: Tier, stage: usize, a: u64, b: u64, out: &mut WorkerOut);
    /// text of case i (for replay files / abort reports); must not run the engine
    fn case_text(&self, tier: Tier, stage: usize, i: u64) -> String;
    /// key for a case whose worker process died or hung (shape-derived)
    fn crash_key(&self, _tier: Tier, _stage: usize, _i: u64, how: &str) -> String {
        format!("{}:unclassified", how)
    }
    /// minimum number of distinct outcome classes expected (vacuity guard)
    fn min_outcomes(&self) -> usize {
        2
    }
}

pub fn install_quiet_panic_hook() {
    // (VH_LOUD=1 keeps the default hook: debugging aid for a panic of the harness itself)
    if std::env::var("VH_LOUD").is_err() {
        std::panic::set_hook(Box::new(|_| {}));
    }
}

// ---------------------------------------------------------------------------
// orchestrator

enum RunRes {
    Ok(WorkerOut),
    Died(String),
    TimedOut,
    /// the worker's watchdog reported that it sat on this one case for too long
    Stuck(u64),
}

/// seconds a worker may spend on one case of a multi-case chunk before its watchdog reports it
pub const STUCK_SECS: u64 = 30;

fn run_worker(id: &str, tier: Tier, stage: usize, a: u64, b: u64, timeout: Duration, dev: bool) -> RunRes {
    // stages named "dev..." run in the harness binary built with the dev profile
    // (overflow checks and debug assertions on, in the engine too)
    let exe = if dev {
        match std::env::var("VH_DEV_EXE") {
            Ok(p) if std::path::Path::new(&p).exists() => std::path::PathBuf::from(p),
            _ => return RunRes::Died("VH_DEV_EXE not set or missing: run through ./check".into()),
        }
    } else {
        std::env::current_exe().expect("current_exe")
    };
    let mut child = match Command::new(exe)
        .args(["worker", id, tier.name(), &stage.to_string(), &a.to_string(), &b.to_string()])
        .stdin(Stdio::null())
        .stdout(Stdio::piped())
        .stderr(Stdio::piped())
        .spawn()
    {
        Ok(c) => c,
        Err(e) => return RunRes::Died(format!("spawn failed: {}", e)),
    };
    let mut stdout = child.stdout.take().unwrap();
    let mut stderr = child.stderr.take().unwrap();
    let t_out = std::thread::spawn(move || {
        let mut s = String::new();
        let _ = stdout.read_to_string(&mut s);
        s
    });
    let t_err = std::thread::spawn(move || {
        let mut s = Vec::new();
        let _ = stderr.read_to_end(&mut s);
        String::from_utf8_lossy(&s).chars().take(2000).collect::<String>()
    });
    let start = Instant::now();
    let status = loop {
        match child.try_wait() {
            Ok(Some(st)) => break Some(st),
            Ok(None) => {
                if start.elapsed() > timeout {
                    let _ = child.kill();
                    let _ = child.wait();
                    break None;
                }
                let el = start.elapsed();
                std::thread::sleep(if el < Duration::from_millis(20) {
                    Duration::from_micros(300)
                } else {
                    Duration::from_millis(5)
                });
            }
            Err(_) => break None,
        }
    };
    let out = t_out.join().unwrap_or_default();
    let err = t_err.join().unwrap_or_default();
    match status {
        None => RunRes::TimedOut,
        Some(st) => {
            if st.success() {
                for line in out.lines().rev() {
                    if let Some(rest) = line.strip_prefix("WORKER-RESULT ") {
                        if let Ok(j) = serde_json::from_str::<J>(rest) {
                            if let Some(o) = WorkerOut::from_json(&j) {
                                return RunRes::Ok(o);
                            }
                        }
                    }
                }
                RunRes::Died(format!("no result line; stderr: {}", err))
            } else {
                for line in out.lines().rev() {
                    if let Some(rest) = line.strip_prefix("WORKER-STUCK ") {
                        if let Ok(i) = rest.trim().parse::<u64>() {
                            if i >= a && i < b && b - a > 1 {
                                return RunRes::Stuck(i);
                            }
                        }
                    }
                }
                RunRes::Died(format!("status {:?}; stderr: {}", st, err.trim()))
            }
        }
    }
}

pub struct CheckResult {
    pub out: WorkerOut,
    pub machinery_errors: Vec<String>,
    pub stage_evals: Vec<(String, u64)>,
}

/// Run all stages of `p`, sharded over `jobs` concurrent worker processes.
pub fn orchestrate(p: &dyn Prop, tier: Tier, plan: &Plan, jobs: usize) -> CheckResult {
    let mut total = WorkerOut::default();
    let mut machinery = Vec::new();
    let mut stage_evals = Vec::new();
    for (si, st) in plan.stages.iter().enumerate() {
        // work list of ranges
        let mut ranges: Vec<(u64, u64)> = Vec::new();
        let mut a = 0;
        while a < st.len {
            let b = (a + st.chunk).min(st.len);
            ranges.push((a, b));
            a = b;
        }
        ranges.reverse();
        let queue = std::sync::Mutex::new(ranges);
        let results = std::sync::Mutex::new((WorkerOut::default(), Vec::<String>::new()));
        // cases a worker's watchdog named as stuck, and how many hangs were confirmed so far: the
        // first few are confirmed by an isolated re-run, after that the watchdog's word is taken
        // (a change that makes a whole family of inputs hang would otherwise cost minutes per case)
        let stuck_seen = std::sync::Mutex::new(std::collections::BTreeSet::<u64>::new());
        let hangs_confirmed = std::sync::atomic::AtomicUsize::new(0);
        let inflight = std::sync::atomic::AtomicUsize::new(0);
        const CONFIRM_FIRST: usize = 4;
        // a stage in which this many cases hung is not explored further: the verdict is in, every
        // further hanging case costs STUCK_SECS of a core, and a change that makes a whole family
        // of inputs hang has thousands of them (the cases left out are counted in the evidence)
        const HANG_CAP: usize = 24;
        let hang_fails = std::sync::atomic::AtomicUsize::new(0);
        std::thread::scope(|s| {
            for _ in 0..jobs {
                s.spawn(|| loop {
                    // a range in flight may come back in pieces (bisection, stuck case): idle
                    // threads wait for that instead of leaving the tail to one thread
                    let item = {
                        let mut q = queue.lock().unwrap();
                        let it = q.pop();
                        if it.is_some() {
                            inflight.fetch_add(1, std::sync::atomic::Ordering::SeqCst);
                        }
                        it
                    };
                    let (a, b) = match item {
                        Some(r) => r,
                        None => {
                            if inflight.load(std::sync::atomic::Ordering::SeqCst) == 0 {
                                break;
                            }
                            std::thread::sleep(Duration::from_millis(3));
                            continue;
                        }
                    };
                    struct Done<'a>(&'a std::sync::atomic::AtomicUsize);
                    impl Drop for Done<'_> {
                        fn drop(&mut self) {
                            self.0.fetch_sub(1, std::sync::atomic::Ordering::SeqCst);
                        }
                    }
                    let _done = Done(&inflight);
                    if hang_fails.load(std::sync::atomic::Ordering::SeqCst) >= HANG_CAP {
                        results.lock().unwrap().0.count("cases_not_explored_after_24_hangs_in_the_stage", b - a);
                        continue;
                    }
                    // one case of a multi-case stage (isolated by the watchdog or by bisection):
                    // its own wall cap, not the whole chunk's
                    let cap = if st.chunk > 1 && b - a == 1 { st.timeout.min(Duration::from_secs(2 * STUCK_SECS)) } else { st.timeout };
                    match run_worker(p.id(), tier, si, a, b, cap, st.name.starts_with("dev")) {
                        RunRes::Ok(o) => results.lock().unwrap().0.merge(o),
                        RunRes::Stuck(i) => {
                            {
                                let mut q = queue.lock().unwrap();
                                // the rest of the chunk goes back in pieces, so that further stuck
                                // cases in it are met by several workers at once, not one after another
                                for (lo, hi) in [(i + 1, b), (a, i)] {
                                    if lo >= hi {
                                        continue;
                                    }
                                    let pieces = (hi - lo).min(8);
                                    let step = (hi - lo).div_ceil(pieces);
                                    let mut x = lo;
                                    while x < hi {
                                        q.push((x, (x + step).min(hi)));
                                        x += step;
                                    }
                                }
                                if hangs_confirmed.load(std::sync::atomic::Ordering::SeqCst) < CONFIRM_FIRST {
                                    // the named case alone, confirmed by one isolated run
                                    stuck_seen.lock().unwrap().insert(i);
                                    q.push((i, i + 1));
                                    continue;
                                }
                            }
                            let mut r = results.lock().unwrap();
                            r.0.evals += 1;
                            r.0.stage = Some(si);
                            r.0.idx = Some(i);
                            let case = format!("{}|{}", st.name, p.case_text(tier, si, i));
                            r.0.fail(p.crash_key(tier, si, i, "hang"), case, format!("worker process sat on this case for more than {} s (reported by its watchdog; not re-run alone because {} hangs of this stage were already confirmed)", STUCK_SECS, CONFIRM_FIRST));
                            hang_fails.fetch_add(1, std::sync::atomic::Ordering::SeqCst);
                        }
                        bad => {
                            let how = match &bad {
                                RunRes::TimedOut => "hang",
                                _ => "abort",
                            };
                            if b - a == 1 {
                                // isolated: confirm once more, then it is a verdict (a case the
                                // watchdog had named already has its second observation)
                                let named = how == "hang" && stuck_seen.lock().unwrap().contains(&a);
                                let enough = how == "hang" && hangs_confirmed.load(std::sync::atomic::Ordering::SeqCst) >= CONFIRM_FIRST;
                                let again = if named || enough { RunRes::TimedOut } else { run_worker(p.id(), tier, si, a, b, cap, st.name.starts_with("dev")) };
                                if how == "hang" {
                                    hangs_confirmed.fetch_add(1, std::sync::atomic::Ordering::SeqCst);
                                }
                                let mut r = results.lock().unwrap();
                                match again {
                                    RunRes::Ok(o) => {
                                        r.1.push(format!(
                                            "stage {} case {}: worker {} once but not when re-run alone",
                                            st.name, a, how
                                        ));
                                        r.0.merge(o);
                                    }
                                    again => {
                                        let detail = match (&bad, &again) {
                                            (RunRes::Died(d), _) => d.clone(),
                                            (_, RunRes::Died(d)) => d.clone(),
                                            _ => format!("no result within {:?}", cap),
                                        };
                                        // Rust's panic exit status means the *harness* panicked outside a
                                        // guard (engine calls are under catch_unwind): not a verdict
                                        let harness_panic = detail.contains("unix_wait_status(25856)");
                                        let key = if harness_panic { "machinery:worker-panicked".to_string() } else { p.crash_key(tier, si, a, how) };
                                        let case = format!("{}|{}", st.name, p.case_text(tier, si, a));
                                        r.0.evals += 1;
                                        r.0.stage = Some(si);
                                        r.0.idx = Some(a);
                                        r.0.fail(key, case, format!("worker process {}: {}", how, detail));
                                        if how == "hang" {
                                            hang_fails.fetch_add(1, std::sync::atomic::Ordering::SeqCst);
                                        }
                                    }
                                }
                            } else {
                                let mid = a + (b - a) / 2;
                                let mut q = queue.lock().unwrap();
                                q.push((mid, b));
                                q.push((a, mid));
                            }
                        }
                    }
                });
            }
        });
        let (o, errs) = results.into_inner().unwrap();
        stage_evals.push((st.name.clone(), o.evals));
        total.merge(o);
        machinery.extend(errs);
    }
    CheckResult {
        out: total,
        machinery_errors: machinery,
        stage_evals,
    }
}

// ---------------------------------------------------------------------------
// known findings (committed text file, never written at run time)

#[derive(Clone, Debug)]
pub struct Known {
    pub status: String, // "open" | "fixed"
    pub property: String,
    pub key: String,
    pub text: String,
}

pub fn load_known(path: &str) -> Vec<Known> {
    let mut v = Vec::new();
    let s = std::fs::read_to_string(path).unwrap_or_default();
    for line in s.lines() {
        let line = line.trim();
        if line.is_empty() || line.starts_with('#') {
            continue;
        }
        let (status, rest) = match line.split_once(':') {
            Some((a, b)) => (a.trim().to_string(), b.trim().to_string()),
            None => continue,
        };
        if status != "open" && status != "fixed" {
            continue;
        }
        let mut property = String::new();
        let mut key = String::new();
        for w in rest.split_whitespace() {
            if let Some(p) = w.strip_prefix("property=") {
                property = p.to_string();
            } else if let Some(k) = w.strip_prefix("key=") {
                key = k.to_string();
            }
        }
        v.push(Known {
            status,
            property,
            key,
            text: rest,
        });
    }
    v
}

// ---------------------------------------------------------------------------
// evidence + verdict

pub fn verif_root() -> String {
    std::env::var("VERIF_ROOT").unwrap_or_else(|_| "/verif".to_string())
}

pub struct Verdict {
    pub violations: usize,
    pub known: usize,
    pub exit: i32,
}

#[allow(clippy::too_many_arguments)]
pub fn finish(
    id: &str,
    tier: Tier,
    plan: &Plan,
    res: CheckResult,
    wall: f64,
    min_outcomes: usize,
    extra: Map<String, J>,
) -> Verdict {
    let root = verif_root();
    let known = load_known(&format!("{}/known_findings.txt", root));
    let seed: i64 = std::env::var("VERIF_SEED").ok().and_then(|s| s.parse().ok()).unwrap_or(0);
    let mut violations = 0usize;
    let mut known_hits = 0usize;
    let _ = std::fs::create_dir_all(format!("{}/replays", root));
    let _ = std::fs::create_dir_all(format!("{}/evidence", root));
    let mut viol_list = Vec::new();
    let mut machinery_from_checks = Vec::new();
    for (key, (f, n)) in &res.out.fails {
        if key.starts_with("machinery:") || key.starts_with("generator:") {
            // a problem of the harness itself: never a verdict about the engine
            machinery_from_checks.push(format!("{} ({} cases) e.g. {} :: {}", key, n, f.case, f.detail.chars().take(300).collect::<String>()));
            continue;
        }
        let is_known = known
            .iter()
            .any(|k| k.status == "open" && k.property == id && &k.key == key);
        if is_known {
            known_hits += 1;
            println!(
                "KNOWN-FINDING: property={} {} ({} cases) e.g. {}",
                id,
                key,
                n,
                f.case.replace('\n', "\\n")
            );
        } else {
            violations += 1;
            if violations > 25 {
                // still a violation (exit 1); the evidence file lists every key
                viol_list.push(json!({"key": key, "case": f.case, "n": n}));
                continue;
            }
            let fname = format!(
                "{}/replays/{}-{:016x}.json",
                root,
                id,
                hash64(&format!("{}|{}", key, f.case))
            );
            let body = json!({"property": id, "key": key, "case": f.case, "detail": f.detail, "cases_with_this_key": n, "tier": tier.name(), "stage": f.loc.map(|l| l.0), "idx": f.loc.map(|l| l.1)});
            let _ = std::fs::write(&fname, serde_json::to_string_pretty(&body).unwrap());
            println!("VIOLATION property={} replay={}", id, fname);
            println!("  key={} cases={} case={}", key, n, f.case.replace('\n', "\\n"));
            println!("  detail: {}", f.detail.replace('\n', " "));
            viol_list.push(json!({"key": key, "case": f.case, "n": n}));
        }
    }
    if violations > 25 {
        println!("({} further violation keys not printed; all are listed in the evidence file)", violations - 25);
    }
    let mut machinery = res.machinery_errors.clone();
    machinery.extend(machinery_from_checks);
    if res.out.evals == 0 {
        machinery.push("no case was evaluated".to_string());
    }
    if res.out.outcomes.len() < min_outcomes {
        machinery.push(format!(
            "vacuous exploration: only {} distinct outcome classes observed ({:?}), expected at least {}",
            res.out.outcomes.len(),
            res.out.outcomes,
            min_outcomes
        ));
    }
    let states: u64 = res.out.counters.get("states").copied().unwrap_or(res.out.evals);
    let transitions: u64 = res.out.counters.get("transitions").copied().unwrap_or(res.out.evals);
    let mut samples: Vec<J> = res.out.samples.iter().map(|s| J::String(s.clone())).collect();
    if samples.is_empty() {
        samples.push(J::String("(no sample recorded)".into()));
    }
    let mut coverage = json!({
        "evaluations": res.out.evals,
        "distinct_nontrivial": res.out.nontrivial.len(),
        "rule": plan.rule,
        "samples": samples,
        "states": states.max(1),
        "transitions": transitions.max(1),
        "states_transitions_meaning": plan.states_note,
        "traces_validated_against_impl": res.out.counters.get("validated").copied().unwrap_or(res.out.evals),
        "exhaustive": plan.exhaustive && machinery.is_empty(),
        "bound_completed": plan.bound,
        "stages": res.stage_evals.iter().map(|(n,e)| json!({"stage": n, "evaluations": e})).collect::<Vec<_>>(),
        "counters": res.out.counters,
        "distinct_outcome_classes": res.out.outcomes.len(),
        "outcome_classes": res.out.outcomes.iter().take(40).collect::<Vec<_>>(),
        "known_findings_hit": known_hits,
        "violation_keys": viol_list,
        "machinery_errors": machinery,
    });
    for (k, v) in extra {
        coverage[k] = v;
    }
    if let Ok(w) = std::env::var("VERIF_SCOPE_WARNING") {
        // the driver found unsafe code or synchronisation primitives the hooks do not wrap
        coverage["scope_warning"] = J::String(w.chars().take(600).collect());
        println!("SCOPE-WARNING: /repo/src now contains constructs outside the hooks' view: {}", w.lines().next().unwrap_or(""));
    }
    let ev = json!({
        "property_id": id,
        "tier": tier.name(),
        "seed": seed,
        "level": "model_checking",
        "coverage": coverage,
        "assumptions": plan.assumptions,
        "wall_s": wall,
        "violations": violations,
    });
    let path = format!("{}/evidence/{}.json", root, id);
    if let Err(e) = std::fs::write(&path, serde_json::to_string_pretty(&ev).unwrap()) {
        machinery.push(format!("cannot write {}: {}", path, e));
    }
    println!(
        "{} {}: evaluations={} distinct_nontrivial={} outcome_classes={} violations={} known={} wall={:.1}s",
        id,
        tier.name(),
        res.out.evals,
        res.out.nontrivial.len(),
        res.out.outcomes.len(),
        violations,
        known_hits,
        wall
    );
    for m in &machinery {
        println!("MACHINERY-ERROR: {}", m);
    }
    let exit = if violations > 0 {
        1
    } else if !machinery.is_empty() {
        2
    } else {
        0
    };
    Verdict {
        violations,
        known: known_hits,
        exit,
    }
}
