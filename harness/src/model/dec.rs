//! Independent exact decimal oracle (C09): sign + 256-bit integer mantissa + scale.
//! No rust_decimal arithmetic, no floats.

#[derive(Clone, Copy, PartialEq, Eq, Debug, PartialOrd, Ord)]
pub struct U256(pub [u64; 4]); // little-endian limbs; derive(Ord) is wrong for LE, use cmp_u()

impl U256 {
    pub const ZERO: U256 = U256([0; 4]);
    pub fn from_u128(x: u128) -> U256 {
        U256([x as u64, (x >> 64) as u64, 0, 0])
    }
    pub fn is_zero(&self) -> bool {
        self.0 == [0; 4]
    }
    pub fn to_u128(&self) -> Option<u128> {
        if self.0[2] != 0 || self.0[3] != 0 {
            return None;
        }
        Some(self.0[0] as u128 | ((self.0[1] as u128) << 64))
    }
    pub fn cmp_u(&self, o: &U256) -> std::cmp::Ordering {
        for i in (0..4).rev() {
            if self.0[i] != o.0[i] {
                return self.0[i].cmp(&o.0[i]);
            }
        }
        std::cmp::Ordering::Equal
    }
    pub fn add(&self, o: &U256) -> Option<U256> {
        let mut r = [0u64; 4];
        let mut carry = 0u128;
        for i in 0..4 {
            let s = self.0[i] as u128 + o.0[i] as u128 + carry;
            r[i] = s as u64;
            carry = s >> 64;
        }
        if carry != 0 {
            None
        } else {
            Some(U256(r))
        }
    }
    /// self - o, requires self >= o
    pub fn sub(&self, o: &U256) -> U256 {
        let mut r = [0u64; 4];
        let mut borrow = 0i128;
        for i in 0..4 {
            let mut d = self.0[i] as i128 - o.0[i] as i128 - borrow;
            if d < 0 {
                d += 1i128 << 64;
                borrow = 1;
            } else {
                borrow = 0;
            }
            r[i] = d as u64;
        }
        assert_eq!(borrow, 0, "U256::sub underflow");
        U256(r)
    }
    pub fn mul(&self, o: &U256) -> Option<U256> {
        let mut r = [0u64; 8];
        for i in 0..4 {
            let mut carry = 0u128;
            for j in 0..4 {
                let cur = r[i + j] as u128 + (self.0[i] as u128) * (o.0[j] as u128) + carry;
                r[i + j] = cur as u64;
                carry = cur >> 64;
            }
            r[i + 4] = carry as u64;
        }
        if r[4..].iter().any(|x| *x != 0) {
            return None;
        }
        Some(U256([r[0], r[1], r[2], r[3]]))
    }
    fn bit(&self, i: usize) -> bool {
        (self.0[i / 64] >> (i % 64)) & 1 == 1
    }
    fn shl1(&self) -> U256 {
        let mut r = [0u64; 4];
        let mut c = 0;
        for i in 0..4 {
            r[i] = (self.0[i] << 1) | c;
            c = self.0[i] >> 63;
        }
        U256(r)
    }
    /// (quotient, remainder), divisor non-zero
    pub fn divrem(&self, d: &U256) -> (U256, U256) {
        assert!(!d.is_zero());
        let mut q = [0u64; 4];
        let mut r = U256::ZERO;
        for i in (0..256).rev() {
            r = r.shl1();
            if self.bit(i) {
                r.0[0] |= 1;
            }
            if r.cmp_u(d) != std::cmp::Ordering::Less {
                r = r.sub(d);
                q[i / 64] |= 1 << (i % 64);
            }
        }
        (U256(q), r)
    }
    pub fn pow10(n: u32) -> U256 {
        let mut r = U256::from_u128(1);
        let ten = U256::from_u128(10);
        for _ in 0..n {
            r = r.mul(&ten).expect("pow10 overflow");
        }
        r
    }
    pub fn to_dec_string(&self) -> String {
        if self.is_zero() {
            return "0".into();
        }
        let mut digits = Vec::new();
        let mut cur = *self;
        let ten = U256::from_u128(10);
        while !cur.is_zero() {
            let (q, r) = cur.divrem(&ten);
            digits.push(b'0' + r.0[0] as u8);
            cur = q;
        }
        digits.reverse();
        String::from_utf8(digits).unwrap()
    }
}

/// value = (-1)^neg * mant / 10^scale
#[derive(Clone, Copy, Debug, PartialEq, Eq)]
pub struct Exact {
    pub neg: bool,
    pub mant: U256,
    pub scale: u32,
}

pub const MAX_MANT: u128 = (1u128 << 96) - 1;

impl Exact {
    pub fn new(neg: bool, mant: u128, scale: u32) -> Exact {
        Exact { neg: neg && mant != 0, mant: U256::from_u128(mant), scale }
    }
    fn aligned(a: &Exact, b: &Exact) -> (U256, U256, u32) {
        let s = a.scale.max(b.scale);
        let am = a.mant.mul(&U256::pow10(s - a.scale)).unwrap();
        let bm = b.mant.mul(&U256::pow10(s - b.scale)).unwrap();
        (am, bm, s)
    }
    pub fn add(a: &Exact, b: &Exact) -> Exact {
        let (am, bm, s) = Exact::aligned(a, b);
        if a.neg == b.neg {
            return Exact { neg: a.neg, mant: am.add(&bm).unwrap(), scale: s }.fix_zero();
        }
        match am.cmp_u(&bm) {
            std::cmp::Ordering::Less => Exact { neg: b.neg, mant: bm.sub(&am), scale: s }.fix_zero(),
            _ => Exact { neg: a.neg, mant: am.sub(&bm), scale: s }.fix_zero(),
        }
    }
    pub fn sub(a: &Exact, b: &Exact) -> Exact {
        let nb = Exact { neg: !b.neg, ..*b };
        Exact::add(a, &nb.fix_zero())
    }
    pub fn mul(a: &Exact, b: &Exact) -> Exact {
        Exact { neg: a.neg != b.neg, mant: a.mant.mul(&b.mant).unwrap(), scale: a.scale + b.scale }.fix_zero()
    }
    /// truncated remainder: sign of the dividend, |r| < |b|; None if b == 0
    pub fn rem(a: &Exact, b: &Exact) -> Option<Exact> {
        if b.mant.is_zero() {
            return None;
        }
        let (am, bm, s) = Exact::aligned(a, b);
        let (_, r) = am.divrem(&bm);
        Some(Exact { neg: a.neg, mant: r, scale: s }.fix_zero())
    }
    pub fn cmp(a: &Exact, b: &Exact) -> std::cmp::Ordering {
        use std::cmp::Ordering::*;
        let (am, bm, _) = Exact::aligned(a, b);
        let az = am.is_zero();
        let bz = bm.is_zero();
        let an = a.neg && !az;
        let bn = b.neg && !bz;
        match (an, bn) {
            (false, true) => Greater,
            (true, false) => Less,
            (false, false) => am.cmp_u(&bm),
            (true, true) => bm.cmp_u(&am),
        }
    }
    fn fix_zero(mut self) -> Exact {
        if self.mant.is_zero() {
            self.neg = false;
        }
        self
    }
    /// Strip trailing zeros down to the smallest scale; then (neg, mant, scale) if it
    /// fits 96 bits and 28 places — i.e. the value is representable exactly.
    pub fn representable(&self) -> Option<(bool, u128, u32)> {
        let mut m = self.mant;
        let mut s = self.scale;
        let ten = U256::from_u128(10);
        while s > 0 {
            let (q, r) = m.divrem(&ten);
            if r.is_zero() {
                m = q;
                s -= 1;
            } else {
                break;
            }
        }
        let mm = m.to_u128()?;
        if mm > MAX_MANT || s > 28 {
            return None;
        }
        Some((self.neg && mm != 0, mm, s))
    }
    /// canonical text of the value (no trailing zeros), e.g. "-12.5"
    pub fn canonical(&self) -> Option<String> {
        let (neg, m, s) = self.representable()?;
        Some(render(neg, m, s))
    }
}

pub fn render(neg: bool, m: u128, s: u32) -> String {
    let digits = m.to_string();
    let body = if s == 0 {
        digits
    } else {
        let s = s as usize;
        let padded = if digits.len() <= s { format!("{}{}", "0".repeat(s + 1 - digits.len()), digits) } else { digits };
        let (i, f) = padded.split_at(padded.len() - s);
        format!("{}.{}", i, f)
    };
    if neg && m != 0 {
        format!("-{}", body)
    } else {
        body
    }
}

#[cfg(test)]
mod tests {
    use super::*;
    #[test]
    fn basics() {
        let a = Exact::new(false, 1, 1); // 0.1
        let b = Exact::new(false, 2, 1); // 0.2
        assert_eq!(Exact::add(&a, &b).canonical().unwrap(), "0.3");
        assert_eq!(Exact::mul(&a, &b).canonical().unwrap(), "0.02");
        assert_eq!(Exact::sub(&a, &b).canonical().unwrap(), "-0.1");
        let c = Exact::new(true, 75, 1); // -7.5
        let d = Exact::new(false, 2, 0);
        assert_eq!(Exact::rem(&c, &d).unwrap().canonical().unwrap(), "-1.5");
        assert_eq!(U256::from_u128(u128::MAX).mul(&U256::from_u128(u128::MAX)).unwrap().to_dec_string(), "115792089237316195423570985008687907852589419931798687112530834793049593217025");
    }
}
