//! Reference parser: textbook precedence climbing over an explicit operator table.
//! Grammar (C02 / C05):
//!   program := ε | expr (';'? expr)* ';'?
//!   expr    := bin ('?' expr ':' expr)?
//!   bin     := primary ( ['not'] INFIX bin' )*        (precedence / associativity from the table)
//!   primary := ( PREFIX primary | atom ) POSTFIX?
//!   atom    := number | bool | string | name | name '(' args ')' | '(' expr ')' | list | map
//!   list/map allow one trailing comma, calls do not.
use super::lex::{lex, LexErr, OpSet, Tok, TK};
use rust_decimal::Decimal;
use std::str::FromStr;

#[derive(Clone, Debug)]
pub enum Ast {
    Num(Decimal),
    Bool(bool),
    Str(String),
    Ref(String),
    Unary(String, Box<Ast>),
    Binary(String, Box<Ast>, Box<Ast>),
    Postfix(Box<Ast>, String),
    Ternary(Box<Ast>, Box<Ast>, Box<Ast>),
    Func(String, Vec<Ast>),
    List(Vec<Ast>),
    Map(Vec<(Ast, Ast)>),
    Stmt(Vec<Ast>),
}

impl PartialEq for Ast {
    fn eq(&self, o: &Ast) -> bool {
        use Ast::*;
        match (self, o) {
            // digits and scale, not just numeric value
            (Num(a), Num(b)) => a.mantissa() == b.mantissa() && a.scale() == b.scale(),
            (Bool(a), Bool(b)) => a == b,
            (Str(a), Str(b)) => a == b,
            (Ref(a), Ref(b)) => a == b,
            (Unary(a, x), Unary(b, y)) => a == b && x == y,
            (Binary(a, x1, x2), Binary(b, y1, y2)) => a == b && x1 == y1 && x2 == y2,
            (Postfix(x, a), Postfix(y, b)) => a == b && x == y,
            (Ternary(a1, a2, a3), Ternary(b1, b2, b3)) => a1 == b1 && a2 == b2 && a3 == b3,
            (Func(a, x), Func(b, y)) => a == b && x == y,
            (List(x), List(y)) => x == y,
            (Map(x), Map(y)) => x == y,
            (Stmt(x), Stmt(y)) => x == y,
            _ => false,
        }
    }
}

#[derive(Clone, Copy, PartialEq, Eq, Debug)]
pub enum PErr {
    Lex(LexErr),
    UnexpectedEof,
    UnexpectedToken,
    NotPrefixOp,
    ExpectedInfixAfterNot,
    Expected(&'static str),
    NumberOutOfDomain,
}

pub struct P<'a> {
    toks: &'a [Tok],
    pos: usize,
    ops: &'a OpSet,
}

pub fn parse(input: &str, ops: &OpSet) -> Result<Ast, PErr> {
    let toks = lex(input, ops).map_err(PErr::Lex)?;
    parse_tokens(&toks, ops)
}

pub fn parse_tokens(toks: &[Tok], ops: &OpSet) -> Result<Ast, PErr> {
    let mut p = P { toks, pos: 0, ops };
    let mut stmts = Vec::new();
    while p.cur().is_some() {
        stmts.push(p.expr()?);
        if p.is(TK::Semi, ";") {
            p.pos += 1;
        }
    }
    if stmts.len() == 1 {
        return Ok(stmts.pop().unwrap());
    }
    Ok(Ast::Stmt(stmts))
}

impl<'a> P<'a> {
    fn cur(&self) -> Option<&'a Tok> {
        self.toks.get(self.pos)
    }
    fn is(&self, k: TK, text: &str) -> bool {
        matches!(self.cur(), Some(t) if t.kind == k && t.text == text)
    }
    fn expect(&mut self, k: TK, text: &'static str) -> Result<(), PErr> {
        if self.is(k, text) {
            self.pos += 1;
            Ok(())
        } else {
            Err(PErr::Expected(text))
        }
    }

    pub fn expr(&mut self) -> Result<Ast, PErr> {
        let cond = self.bin(None)?;
        if self.is(TK::Op, "?") {
            self.pos += 1;
            let a = self.expr()?;
            self.expect(TK::Op, ":")?;
            let b = self.expr()?;
            return Ok(Ast::Ternary(Box::new(cond), Box::new(a), Box::new(b)));
        }
        Ok(cond)
    }

    /// The infix operator at the cursor (looking through `not`): (negated, name, tokens to consume)
    fn infix_here(&self) -> Result<Option<(bool, &'a str)>, PErr> {
        match self.cur() {
            Some(t) if t.kind == TK::Op && t.text == "not" => match self.toks.get(self.pos + 1) {
                Some(n) if n.kind == TK::Op && self.ops.is_infix(&n.text) => Ok(Some((true, &n.text))),
                _ => Err(PErr::ExpectedInfixAfterNot),
            },
            Some(t) if t.kind == TK::Op && self.ops.is_infix(&t.text) => Ok(Some((false, &t.text))),
            _ => Ok(None),
        }
    }

    /// Does operator `next` (appearing after the right operand of `cur`) bind into that operand?
    fn binds_tighter(&self, next: &str, cur: &str) -> bool {
        let n = &self.ops.infix[next];
        let c = &self.ops.infix[cur];
        n.prec > c.prec || (n.prec == c.prec && !c.left)
    }

    /// `outer`: the operator whose right operand we are parsing (None at the top)
    fn bin(&mut self, outer: Option<&str>) -> Result<Ast, PErr> {
        let mut lhs = self.primary()?;
        loop {
            let (neg, op) = match self.infix_here()? {
                None => return Ok(lhs),
                Some(x) => x,
            };
            if let Some(o) = outer {
                if !self.binds_tighter(op, o) {
                    return Ok(lhs);
                }
            }
            self.pos += if neg { 2 } else { 1 };
            let rhs = self.bin(Some(op))?;
            lhs = Ast::Binary(op.to_string(), Box::new(lhs), Box::new(rhs));
            if neg {
                lhs = Ast::Unary("not".to_string(), Box::new(lhs));
            }
        }
    }

    fn primary(&mut self) -> Result<Ast, PErr> {
        let t = self.token()?;
        if let Some(c) = self.cur() {
            if c.kind == TK::Op && self.ops.is_postfix(&c.text) {
                self.pos += 1;
                return Ok(Ast::Postfix(Box::new(t), c.text.clone()));
            }
        }
        Ok(t)
    }

    fn token(&mut self) -> Result<Ast, PErr> {
        let t = match self.cur() {
            None => return Err(PErr::UnexpectedEof),
            Some(t) => t,
        };
        match t.kind {
            TK::Num => {
                self.pos += 1;
                match super::lex::decimal_parts(&t.text) {
                    Some(_) => Ok(Ast::Num(Decimal::from_str(&t.text).map_err(|_| PErr::NumberOutOfDomain)?)),
                    None => Err(PErr::NumberOutOfDomain),
                }
            }
            TK::Bool => {
                self.pos += 1;
                Ok(Ast::Bool(t.text == "true" || t.text == "True"))
            }
            TK::Str => {
                self.pos += 1;
                Ok(Ast::Str(t.text.clone()))
            }
            TK::Ref => {
                self.pos += 1;
                Ok(Ast::Ref(t.text.clone()))
            }
            TK::Func => {
                self.pos += 1;
                self.expect(TK::Delim, "(")?;
                let mut args = Vec::new();
                if self.is(TK::Delim, ")") {
                    self.pos += 1;
                    return Ok(Ast::Func(t.text.clone(), args));
                }
                loop {
                    args.push(self.expr()?);
                    if self.is(TK::Delim, ")") {
                        self.pos += 1;
                        break;
                    }
                    self.expect(TK::Comma, ",")?;
                }
                Ok(Ast::Func(t.text.clone(), args))
            }
            TK::Op => {
                if !self.ops.is_prefix(&t.text) {
                    return Err(PErr::NotPrefixOp);
                }
                self.pos += 1;
                let operand = self.primary()?;
                Ok(Ast::Unary(t.text.clone(), Box::new(operand)))
            }
            TK::Delim => match t.text.as_str() {
                "(" => {
                    self.pos += 1;
                    let e = self.expr()?;
                    self.expect(TK::Delim, ")")?;
                    Ok(e)
                }
                "[" => {
                    self.pos += 1;
                    let mut items = Vec::new();
                    loop {
                        if self.is(TK::Delim, "]") {
                            break;
                        }
                        items.push(self.expr()?);
                        if !self.is(TK::Delim, "]") {
                            self.expect(TK::Comma, ",")?;
                        }
                    }
                    self.expect(TK::Delim, "]")?;
                    Ok(Ast::List(items))
                }
                "{" => {
                    self.pos += 1;
                    let mut items = Vec::new();
                    loop {
                        if self.is(TK::Delim, "}") {
                            break;
                        }
                        let k = self.expr()?;
                        self.expect(TK::Op, ":")?;
                        let v = self.expr()?;
                        items.push((k, v));
                        if !self.is(TK::Delim, "}") {
                            self.expect(TK::Comma, ",")?;
                        }
                    }
                    self.expect(TK::Delim, "}")?;
                    Ok(Ast::Map(items))
                }
                _ => Err(PErr::UnexpectedToken),
            },
            TK::Comma | TK::Semi => Err(PErr::UnexpectedToken),
        }
    }
}

// ---------------------------------------------------------------------------
// printer (model side): minimal or full parenthesisation

#[derive(Clone, Copy, PartialEq, Eq)]
pub enum Parens {
    Minimal,
    Full,
}

fn is_atom(a: &Ast) -> bool {
    matches!(a, Ast::Num(_) | Ast::Bool(_) | Ast::Str(_) | Ast::Ref(_) | Ast::Func(..) | Ast::List(_) | Ast::Map(_))
}

/// If `a` is an infix node (plain or `not`-negated) return (negated, op, lhs, rhs).
pub fn as_infix<'x>(a: &'x Ast, ops: &OpSet) -> Option<(bool, &'x str, &'x Ast, &'x Ast)> {
    match a {
        Ast::Binary(op, l, r) => Some((false, op, l, r)),
        Ast::Unary(n, inner) if n == "not" => match &**inner {
            Ast::Binary(op, l, r) if ops.is_infix(op) => Some((true, op, l, r)),
            _ => None,
        },
        _ => None,
    }
}

pub fn quote(s: &str) -> String {
    if s.contains('\'') {
        format!("\"{}\"", s)
    } else {
        format!("'{}'", s)
    }
}

/// Render with the given parenthesisation; `not`-negated infix nodes are rendered in
/// infix form (`x not OP y`).
pub fn print(a: &Ast, ops: &OpSet, mode: Parens) -> String {
    let wrap = |x: &Ast| format!("({})", print(x, ops, mode));
    match a {
        Ast::Num(d) => d.to_string(),
        Ast::Bool(b) => b.to_string(),
        Ast::Str(s) => quote(s),
        Ast::Ref(n) => n.clone(),
        Ast::Func(n, args) => format!(
            "{}({})",
            n,
            args.iter().map(|x| print(x, ops, mode)).collect::<Vec<_>>().join(" , ")
        ),
        Ast::List(items) => format!(
            "[{}]",
            items.iter().map(|x| print(x, ops, mode)).collect::<Vec<_>>().join(" , ")
        ),
        Ast::Map(items) => format!(
            "{{{}}}",
            items
                .iter()
                .map(|(k, v)| {
                    // a conditional key would swallow the ':' of the entry
                    let ks = if matches!(k, Ast::Ternary(..)) { wrap(k) } else { print(k, ops, mode) };
                    format!("{} : {}", ks, print(v, ops, mode))
                })
                .collect::<Vec<_>>()
                .join(" , ")
        ),
        // (a word operator directly followed by ';' or ',' would not be recognised as one)
        Ast::Stmt(items) => items.iter().map(|x| print(x, ops, mode)).collect::<Vec<_>>().join(" ; "),
        Ast::Ternary(c, x, y) => {
            let cs = if matches!(**c, Ast::Ternary(..)) || (mode == Parens::Full && !is_atom(c)) {
                wrap(c)
            } else {
                print(c, ops, mode)
            };
            let xs = if mode == Parens::Full && !is_atom(x) { wrap(x) } else { print(x, ops, mode) };
            let ys = if mode == Parens::Full && !is_atom(y) { wrap(y) } else { print(y, ops, mode) };
            format!("{} ? {} : {}", cs, xs, ys)
        }
        Ast::Postfix(x, op) => {
            let xs = if is_atom(x) { print(x, ops, mode) } else { wrap(x) };
            format!("{} {}", xs, op)
        }
        _ => {
            if let Some((neg, op, l, r)) = as_infix(a, ops) {
                let info = &ops.infix[op];
                let child = |c: &Ast, right: bool| -> String {
                    if mode == Parens::Full && !is_atom(c) {
                        return wrap(c);
                    }
                    if matches!(c, Ast::Ternary(..)) {
                        return wrap(c);
                    }
                    if let Some((_, cop, _, _)) = as_infix(c, ops) {
                        let ci = &ops.infix[cop];
                        let bare = if right {
                            // right child stays bare iff it binds into the right operand
                            ci.prec > info.prec || (ci.prec == info.prec && !info.left)
                        } else {
                            ci.prec > info.prec || (ci.prec == info.prec && ci.left)
                        };
                        if !bare {
                            return wrap(c);
                        }
                    }
                    print(c, ops, mode)
                };
                let opx = if neg { format!("not {}", op) } else { op.to_string() };
                return format!("{} {} {}", child(l, false), opx, child(r, true));
            }
            match a {
                Ast::Unary(op, x) => {
                    // prefix operand is a primary: atom, atom+postfix, or another prefix
                    let bare = is_atom(x)
                        || matches!(&**x, Ast::Postfix(inner, _) if is_atom(inner))
                        || (matches!(**x, Ast::Unary(..)) && as_infix(x, ops).is_none());
                    let xs = if bare && !(mode == Parens::Full && !is_atom(x)) { print(x, ops, mode) } else { wrap(x) };
                    format!("{} {}", op, xs)
                }
                _ => unreachable!(),
            }
        }
    }
}

pub fn count_nodes(a: &Ast) -> usize {
    match a {
        Ast::Num(_) | Ast::Bool(_) | Ast::Str(_) | Ast::Ref(_) => 0,
        Ast::Unary(_, x) | Ast::Postfix(x, _) => 1 + count_nodes(x),
        Ast::Binary(_, l, r) => 1 + count_nodes(l) + count_nodes(r),
        Ast::Ternary(a, b, c) => 1 + count_nodes(a) + count_nodes(b) + count_nodes(c),
        Ast::Func(_, v) | Ast::List(v) | Ast::Stmt(v) => 1 + v.iter().map(count_nodes).sum::<usize>(),
        Ast::Map(v) => 1 + v.iter().map(|(k, x)| count_nodes(k) + count_nodes(x)).sum::<usize>(),
    }
}
