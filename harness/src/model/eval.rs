//! Reference evaluator: an 11-case recursive function over the model AST and a
//! BTreeMap context. Numbers use rust_decimal's *checked* operations; bit operators
//! work on i64 with explicit range checks. Handlers that are not built in are
//! supplied by the harness (so that they can log, fail or carry tags).
use super::lex::OpSet;
use super::parse::Ast;
use expression_engine::Value;
use rust_decimal::prelude::*;
use std::collections::BTreeMap;
use std::sync::Arc;

#[derive(Clone, Copy, PartialEq, Eq, Debug)]
pub enum EErr {
    Type,
    Arith,
    NotFound,
    NotRef,
    Handler,
}

pub type HFn = Arc<dyn Fn(Vec<Value>) -> Result<Value, EErr> + Send + Sync>;

#[derive(Clone)]
pub enum MBind {
    Var(Value),
    Func(HFn),
}

pub type MCtx = BTreeMap<String, MBind>;

#[derive(Clone)]
pub struct World {
    pub ops: OpSet,
    /// globally registered functions that are not built in (or override a built-in)
    pub functions: BTreeMap<String, HFn>,
    pub prefix: BTreeMap<String, HFn>,
    pub infix: BTreeMap<String, HFn>,
    pub postfix: BTreeMap<String, HFn>,
}

impl World {
    pub fn builtin() -> World {
        World {
            ops: OpSet::builtin(),
            functions: BTreeMap::new(),
            prefix: BTreeMap::new(),
            infix: BTreeMap::new(),
            postfix: BTreeMap::new(),
        }
    }
}

fn num(v: &Value) -> Result<Decimal, EErr> {
    match v {
        Value::Number(d) => Ok(*d),
        _ => Err(EErr::Type),
    }
}
fn boolean(v: &Value) -> Result<bool, EErr> {
    match v {
        Value::Bool(b) => Ok(*b),
        _ => Err(EErr::Type),
    }
}
fn string(v: &Value) -> Result<&str, EErr> {
    match v {
        Value::String(s) => Ok(s),
        _ => Err(EErr::Type),
    }
}
fn list(v: &Value) -> Result<&Vec<Value>, EErr> {
    match v {
        Value::List(l) => Ok(l),
        _ => Err(EErr::Type),
    }
}
/// the integer n iff the number's value is exactly n and n fits i64
pub fn integer(v: &Value) -> Result<i64, EErr> {
    let d = num(v)?;
    if d != d.trunc() {
        return Err(EErr::Type);
    }
    // decide on the printed integer part: independent of rust_decimal's to_i64
    let t = d.trunc().normalize();
    let s = t.to_string();
    let s = if s == "-0" { "0".to_string() } else { s };
    s.parse::<i64>().map_err(|_| EErr::Type)
}

pub fn builtin_infix(op: &str, a: &Value, b: &Value) -> Result<Value, EErr> {
    let arith = |r: Option<Decimal>| r.map(Value::Number).ok_or(EErr::Arith);
    match op {
        "=" => Ok(b.clone()),
        "+" | "+=" => arith(num(a)?.checked_add(num(b)?)),
        "-" | "-=" => arith(num(a)?.checked_sub(num(b)?)),
        "*" | "*=" => arith(num(a)?.checked_mul(num(b)?)),
        "/" | "/=" => arith(num(a)?.checked_div(num(b)?)),
        "%" | "%=" => arith(num(a)?.checked_rem(num(b)?)),
        "<<" | "<<=" | ">>" | ">>=" | "&" | "&=" | "^" | "^=" | "|" | "|=" => {
            let (x, y) = (integer(a)?, integer(b)?);
            let r: i64 = match op {
                "&" | "&=" => x & y,
                "^" | "^=" => x ^ y,
                "|" | "|=" => x | y,
                _ => {
                    if !(0..=63).contains(&y) {
                        return Err(EErr::Arith);
                    }
                    if op.starts_with("<<") {
                        // 64-bit two's complement: bits shifted out are lost
                        ((x as u64) << y) as i64
                    } else {
                        x >> y
                    }
                }
            };
            Ok(Value::Number(Decimal::from(r)))
        }
        "||" => Ok(Value::Bool({
            let (x, y) = (boolean(a)?, boolean(b)?);
            x || y
        })),
        "&&" => Ok(Value::Bool({
            let (x, y) = (boolean(a)?, boolean(b)?);
            x && y
        })),
        "<" => Ok(Value::Bool(num(a)? < num(b)?)),
        "<=" => Ok(Value::Bool(num(a)? <= num(b)?)),
        ">" => Ok(Value::Bool(num(a)? > num(b)?)),
        ">=" => Ok(Value::Bool(num(a)? >= num(b)?)),
        "==" => Ok(Value::Bool(a == b)),
        "!=" => Ok(Value::Bool(a != b)),
        "beginWith" => Ok(Value::Bool(string(a)?.starts_with(string(b)?))),
        "endWith" => Ok(Value::Bool(string(a)?.ends_with(string(b)?))),
        "in" => {
            let l = list(b)?;
            Ok(Value::Bool(l.iter().any(|x| x == a)))
        }
        _ => Err(EErr::NotFound),
    }
}

pub fn builtin_prefix(op: &str, a: &Value) -> Result<Value, EErr> {
    match op {
        "-" => Ok(Value::Number(-num(a)?)),
        "+" => Ok(Value::Number(num(a)?)),
        "!" | "not" => Ok(Value::Bool(!boolean(a)?)),
        // aggregates over a list of booleans, evaluated left to right with early exit
        "AND" => {
            for x in list(a)? {
                if !boolean(x)? {
                    return Ok(Value::Bool(false));
                }
            }
            Ok(Value::Bool(true))
        }
        "OR" => {
            for x in list(a)? {
                if boolean(x)? {
                    return Ok(Value::Bool(true));
                }
            }
            Ok(Value::Bool(false))
        }
        _ => Err(EErr::NotFound),
    }
}

pub fn builtin_postfix(op: &str, a: &Value) -> Result<Value, EErr> {
    match op {
        "++" => num(a)?.checked_add(Decimal::ONE).map(Value::Number).ok_or(EErr::Arith),
        "--" => num(a)?.checked_sub(Decimal::ONE).map(Value::Number).ok_or(EErr::Arith),
        _ => Err(EErr::NotFound),
    }
}

pub fn builtin_function(name: &str, args: &[Value]) -> Result<Value, EErr> {
    match name {
        "min" | "max" => {
            let mut best: Option<Decimal> = None;
            for a in args {
                let d = num(a)?;
                best = Some(match best {
                    None => d,
                    Some(b) => {
                        if (name == "min" && d < b) || (name == "max" && d > b) {
                            d
                        } else {
                            b
                        }
                    }
                });
            }
            best.map(Value::Number).ok_or(EErr::Arith)
        }
        "sum" => {
            let mut acc = Decimal::ZERO;
            for a in args {
                acc = acc.checked_add(num(a)?).ok_or(EErr::Arith)?;
            }
            Ok(Value::Number(acc))
        }
        "mul" => {
            let mut acc = Decimal::ONE;
            for a in args {
                acc = acc.checked_mul(num(a)?).ok_or(EErr::Arith)?;
            }
            Ok(Value::Number(acc))
        }
        _ => Err(EErr::NotFound),
    }
}

pub fn eval(a: &Ast, ctx: &mut MCtx, w: &World) -> Result<Value, EErr> {
    match a {
        Ast::Num(d) => Ok(Value::Number(*d)),
        Ast::Bool(b) => Ok(Value::Bool(*b)),
        Ast::Str(s) => Ok(Value::String(s.clone())),
        Ast::Ref(name) => match ctx.get(name).cloned() {
            None => Ok(Value::None),
            Some(MBind::Var(v)) => Ok(v),
            Some(MBind::Func(f)) => f(Vec::new()),
        },
        Ast::Func(name, args) => {
            let mut vals = Vec::new();
            for x in args {
                vals.push(eval(x, ctx, w)?);
            }
            if let Some(MBind::Func(f)) = ctx.get(name).cloned() {
                return f(vals);
            }
            if let Some(f) = w.functions.get(name) {
                return f(vals);
            }
            builtin_function(name, &vals)
        }
        Ast::Unary(op, x) => {
            if !w.ops.is_prefix(op) {
                return Err(EErr::NotFound);
            }
            let v = eval(x, ctx, w)?;
            match w.prefix.get(op) {
                Some(f) => f(vec![v]),
                None => builtin_prefix(op, &v),
            }
        }
        Ast::Postfix(x, op) => {
            if !w.ops.is_postfix(op) {
                return Err(EErr::NotFound);
            }
            let v = eval(x, ctx, w)?;
            match w.postfix.get(op) {
                Some(f) => f(vec![v]),
                None => builtin_postfix(op, &v),
            }
        }
        Ast::Binary(op, l, r) => {
            let info = w.ops.infix.get(op).ok_or(EErr::NotFound)?.clone();
            let lv = eval(l, ctx, w)?;
            let rv = eval(r, ctx, w)?;
            let apply = |lv: Value, rv: Value| match w.infix.get(op) {
                Some(f) => f(vec![lv, rv]),
                None => builtin_infix(op, &lv, &rv),
            };
            if info.setter {
                let name = match &**l {
                    Ast::Ref(n) => n.clone(),
                    _ => return Err(EErr::NotRef),
                };
                let v = apply(lv, rv)?;
                ctx.insert(name, MBind::Var(v));
                Ok(Value::None)
            } else {
                apply(lv, rv)
            }
        }
        Ast::Ternary(c, x, y) => match eval(c, ctx, w)? {
            Value::Bool(true) => eval(x, ctx, w),
            Value::Bool(false) => eval(y, ctx, w),
            _ => Err(EErr::Type),
        },
        Ast::List(items) => {
            let mut v = Vec::new();
            for x in items {
                v.push(eval(x, ctx, w)?);
            }
            Ok(Value::List(v))
        }
        Ast::Map(items) => {
            let mut v = Vec::new();
            for (k, x) in items {
                let kv = eval(k, ctx, w)?;
                let xv = eval(x, ctx, w)?;
                v.push((kv, xv));
            }
            Ok(Value::Map(v))
        }
        Ast::Stmt(items) => {
            let mut last = Value::None;
            for x in items {
                last = eval(x, ctx, w)?;
            }
            Ok(last)
        }
    }
}

/// Structural equality that also compares the scale of numbers.
pub fn same_value_strict(a: &Value, b: &Value) -> bool {
    match (a, b) {
        (Value::Number(x), Value::Number(y)) => x.mantissa() == y.mantissa() && x.scale() == y.scale(),
        (Value::List(x), Value::List(y)) => x.len() == y.len() && x.iter().zip(y).all(|(p, q)| same_value_strict(p, q)),
        (Value::Map(x), Value::Map(y)) => {
            x.len() == y.len()
                && x.iter().zip(y).all(|((k1, v1), (k2, v2))| same_value_strict(k1, k2) && same_value_strict(v1, v2))
        }
        _ => a == b,
    }
}
