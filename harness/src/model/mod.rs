pub mod dec;
pub mod eval;
pub mod lex;
pub mod parse;
