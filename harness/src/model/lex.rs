//! Reference lexer, written from the README and the property statements (C10):
//! longest registered symbolic operator by greedy extension, word operators only
//! when the whole whitespace/delimiter-bounded word is registered, identifier =
//! first char + [0-9A-Za-z._]*, true/True/false/False, name followed by `(` is a
//! function name, number = digit run, string = up to the same quote (no escapes).
use std::collections::{BTreeMap, BTreeSet};

#[derive(Clone, Copy, PartialEq, Eq, Debug, Hash, PartialOrd, Ord)]
pub enum TK {
    Op,
    Delim,
    Num,
    Comma,
    Bool,
    Str,
    Ref,
    Func,
    Semi,
}

impl TK {
    pub fn name(self) -> &'static str {
        match self {
            TK::Op => "operator",
            TK::Delim => "delim",
            TK::Num => "number",
            TK::Comma => "comma",
            TK::Bool => "bool",
            TK::Str => "string",
            TK::Ref => "reference",
            TK::Func => "function",
            TK::Semi => "semicolon",
        }
    }
}

#[derive(Clone, PartialEq, Eq, Debug)]
pub struct Tok {
    pub kind: TK,
    /// source slice (for strings: the payload between the quotes)
    pub text: String,
    pub start: usize,
    pub end: usize,
}

#[derive(Clone, Copy, PartialEq, Eq, Debug)]
pub enum LexErr {
    UnterminatedString,
    InvalidNumber,
}

#[derive(Clone, Debug, PartialEq, Eq)]
pub struct InfixInfo {
    pub prec: i32,
    pub left: bool,
    pub setter: bool,
}

/// The operator table the lexer and parser consult.
#[derive(Clone, Debug, PartialEq, Eq)]
pub struct OpSet {
    pub prefix: BTreeSet<String>,
    pub infix: BTreeMap<String, InfixInfo>,
    pub postfix: BTreeSet<String>,
}

impl OpSet {
    pub fn builtin() -> OpSet {
        let mut infix = BTreeMap::new();
        let mut add = |ops: &[&str], prec: i32, left: bool, setter: bool| {
            for o in ops {
                infix.insert(o.to_string(), InfixInfo { prec, left, setter });
            }
        };
        add(&["=", "+=", "-=", "*=", "/=", "%=", "<<=", ">>=", "&=", "^=", "|="], 20, false, true);
        add(&["||"], 40, true, false);
        add(&["&&"], 50, true, false);
        add(&["<", "<=", ">", ">=", "==", "!="], 60, true, false);
        add(&["|"], 70, true, false);
        add(&["^"], 80, true, false);
        add(&["&"], 90, true, false);
        add(&["<<", ">>"], 100, true, false);
        add(&["+", "-"], 110, true, false);
        add(&["*", "/", "%"], 120, true, false);
        add(&["beginWith", "endWith", "in"], 200, true, false);
        OpSet {
            prefix: ["-", "+", "!", "not", "AND", "OR"].iter().map(|s| s.to_string()).collect(),
            infix,
            postfix: ["++", "--"].iter().map(|s| s.to_string()).collect(),
        }
    }
    pub fn is_prefix(&self, s: &str) -> bool {
        self.prefix.contains(s)
    }
    pub fn is_infix(&self, s: &str) -> bool {
        self.infix.contains_key(s)
    }
    pub fn is_postfix(&self, s: &str) -> bool {
        self.postfix.contains(s)
    }
    pub fn is_op(&self, s: &str) -> bool {
        self.is_prefix(s) || self.is_infix(s) || self.is_postfix(s) || s == "?" || s == ":"
    }
}

pub fn is_ws(c: char) -> bool {
    c == ' ' || c == '\t' || c == '\r' || c == '\n'
}
fn is_delim(c: char) -> bool {
    matches!(c, '(' | ')' | '[' | ']' | '{' | '}')
}
fn is_symbolic_start(c: char) -> bool {
    matches!(c, '+' | '-' | '*' | '/' | '^' | '%' | '&' | '!' | '=' | '?' | ':' | '>' | '<' | '|')
}
fn is_ident_cont(c: char) -> bool {
    c.is_ascii_alphanumeric() || c == '.' || c == '_'
}

fn char_at(s: &str, i: usize) -> Option<char> {
    s[i..].chars().next()
}

pub fn lex(input: &str, ops: &OpSet) -> Result<Vec<Tok>, LexErr> {
    let mut toks = Vec::new();
    let n = input.len();
    let mut i = 0usize;
    loop {
        while let Some(c) = if i < n { char_at(input, i) } else { None } {
            if is_ws(c) {
                i += c.len_utf8();
            } else {
                break;
            }
        }
        if i >= n {
            break;
        }
        let c = char_at(input, i).unwrap();
        let start = i;
        if is_symbolic_start(c) {
            let mut j = i + 1;
            while j < n {
                let ch = char_at(input, j).unwrap();
                if ops.is_op(&input[start..j + ch.len_utf8()]) {
                    j += ch.len_utf8();
                } else {
                    break;
                }
            }
            toks.push(Tok { kind: TK::Op, text: input[start..j].to_string(), start, end: j });
            i = j;
        } else if is_delim(c) {
            toks.push(Tok { kind: TK::Delim, text: c.to_string(), start, end: start + 1 });
            i += 1;
        } else if c.is_ascii_digit() {
            // maximal run of digit characters; a sign only directly after e/E
            let mut j = i + 1;
            let mut last = c;
            while j < n {
                let ch = char_at(input, j).unwrap();
                if (ch == '+' || ch == '-') && last != 'e' && last != 'E' {
                    break;
                }
                if ch.is_ascii_digit() || ch == '.' || ch == '-' || ch == '+' || ch == 'e' || ch == 'E' {
                    last = ch;
                    j += 1;
                } else {
                    break;
                }
            }
            let text = &input[start..j];
            if !valid_decimal_text(text) {
                return Err(LexErr::InvalidNumber);
            }
            toks.push(Tok { kind: TK::Num, text: text.to_string(), start, end: j });
            i = j;
        } else if c == '"' || c == '\'' {
            match input[i + 1..].find(c) {
                None => return Err(LexErr::UnterminatedString),
                Some(off) => {
                    let close = i + 1 + off;
                    toks.push(Tok { kind: TK::Str, text: input[i + 1..close].to_string(), start, end: close + 1 });
                    i = close + 1;
                }
            }
        } else if c == ';' {
            toks.push(Tok { kind: TK::Semi, text: ";".into(), start, end: start + 1 });
            i += 1;
        } else if c == ',' {
            toks.push(Tok { kind: TK::Comma, text: ",".into(), start, end: start + 1 });
            i += 1;
        } else {
            // word operator: the whole word up to whitespace / delimiter must be registered
            let mut w = i;
            while w < n {
                let ch = char_at(input, w).unwrap();
                if is_ws(ch) || is_delim(ch) {
                    break;
                }
                w += ch.len_utf8();
            }
            if ops.is_op(&input[start..w]) {
                toks.push(Tok { kind: TK::Op, text: input[start..w].to_string(), start, end: w });
                i = w;
                continue;
            }
            let mut j = i + c.len_utf8();
            while j < n {
                let ch = char_at(input, j).unwrap();
                if is_ident_cont(ch) {
                    j += 1;
                } else {
                    break;
                }
            }
            let atom = &input[start..j];
            let kind = if atom == "true" || atom == "True" || atom == "false" || atom == "False" {
                TK::Bool
            } else {
                // a name directly followed (after optional whitespace) by `(` is a function name
                let mut k = j;
                while k < n && is_ws(char_at(input, k).unwrap()) {
                    k += 1;
                }
                if k < n && char_at(input, k).unwrap() == '(' {
                    TK::Func
                } else {
                    TK::Ref
                }
            };
            toks.push(Tok { kind, text: atom.to_string(), start, end: j });
            i = j;
        }
    }
    Ok(toks)
}

/// digits ( '.' digits* )?  — and nothing else (no exponent, no sign, one dot).
pub fn valid_decimal_text(t: &str) -> bool {
    let mut seen_dot = false;
    let mut int_digits = 0;
    for ch in t.chars() {
        if ch.is_ascii_digit() {
            if !seen_dot {
                int_digits += 1;
            }
        } else if ch == '.' && !seen_dot {
            seen_dot = true;
        } else {
            return false;
        }
    }
    int_digits > 0
}

/// (mantissa, scale) of a valid decimal text, if it fits 96 bits / 28 places exactly.
pub fn decimal_parts(t: &str) -> Option<(u128, u32)> {
    if !valid_decimal_text(t) {
        return None;
    }
    let mut m: u128 = 0;
    let mut scale = 0u32;
    let mut seen_dot = false;
    for ch in t.chars() {
        if ch == '.' {
            seen_dot = true;
            continue;
        }
        m = m.checked_mul(10)?.checked_add(ch as u128 - '0' as u128)?;
        if m >= (1u128 << 96) {
            return None;
        }
        if seen_dot {
            scale += 1;
        }
    }
    if scale > 28 {
        return None;
    }
    Some((m, scale))
}

/// kind sequence, e.g. "reference operator number" (used for distinctness counting)
pub fn kinds(toks: &[Tok]) -> String {
    toks.iter().map(|t| t.kind.name()).collect::<Vec<_>>().join(" ")
}
