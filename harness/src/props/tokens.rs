//! Σ_t: the token alphabet for token-sequence enumeration (C02 token-driven, C05).
use crate::gen::mixed_radix;

pub const TOKENS: &[&str] = &[
    "1", "x", "'s'", "','", "':'", "true", "(", ")", "[", "]", "{", "}", ",", ";", "?", ":", "!", "-", "*", "+", "<",
    "&&", "=", "+=", "in", "++", "not", "AND",
    // lexical errors as tokens: a quote that opens an unterminated string, a malformed number
    "'", "1e5",
    // a string literal whose text is a closing delimiter
    "')'",
];

/// sub-alphabet that keeps every delimiter and separator
pub const TOKENS_SMALL: &[&str] = &["1", "x", "(", ")", "[", "]", "{", "}", ",", ";", "?", ":", "-", "++", "not", "\u{c}"];

pub struct TokenSeqs {
    pub alphabet: Vec<&'static str>,
    pub max_len: u32,
}

impl TokenSeqs {
    pub fn len(&self) -> u64 {
        let n = self.alphabet.len() as u64;
        (0..=self.max_len).map(|l| n.pow(l)).sum()
    }
    pub fn tokens(&self, mut i: u64) -> Vec<&'static str> {
        let n = self.alphabet.len() as u64;
        let mut l = 0u32;
        loop {
            let block = n.pow(l);
            if i < block {
                break;
            }
            i -= block;
            l += 1;
        }
        let radices = vec![n; l as usize];
        mixed_radix(i, &radices).into_iter().map(|d| self.alphabet[d as usize]).collect()
    }
    pub fn spaced(&self, i: u64) -> String {
        self.tokens(i).join(" ")
    }
    pub fn glued(&self, i: u64) -> String {
        self.tokens(i).concat()
    }
}
