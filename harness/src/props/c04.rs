//! C04 — runtime faults surface as Err: no panic, no silently wrapped number, in debug and
//! release builds alike. The fault product (operators x edge operands) is enumerated
//! completely and run in two builds of the engine: release (overflow checks off) and dev
//! (overflow checks and debug assertions on).
use super::c03::{run_case, Case};
use super::vals::*;
use crate::core::*;
use crate::gen::ALL_INFIX;
use crate::model::eval::World;
use expression_engine::Value;
use rust_decimal::Decimal;
use std::time::Duration;

pub struct C04;

fn bind(names: &[&str], vals: &[&Value]) -> Vec<(String, Value)> {
    names.iter().zip(vals).map(|(n, v)| (n.to_string(), (*v).clone())).collect()
}

pub fn cases() -> Vec<Case> {
    let mut out = Vec::new();
    let mut push2 = |op: &str, a: &Value, b: &Value, out: &mut Vec<Case>| {
        let key = format!("{}:{}:{}", op, class(a), class(b));
        let setter = op.ends_with('=') && !matches!(op, "==" | "!=" | "<=" | ">=");
        out.push(Case { program: format!("a {} b", op), bindings: bind(&["a", "b"], &[a, b]), key: key.clone(), lenient_err: false });
        if setter {
            out.push(Case { program: format!("a {} b; a", op), bindings: bind(&["a", "b"], &[a, b]), key: format!("{}:readback", key), lenient_err: false });
        } else {
            out.push(Case { program: format!("{} {} {}", as_expr(a), op, as_expr(b)), bindings: vec![], key: format!("{}:literal", key), lenient_err: false });
        }
    };
    // division / remainder by zero in every spelling of zero
    let zeros = [d("0"), d("0.0"), d("0.00000"), Value::Number(-Decimal::ZERO)];
    let dividends = [d("1"), d("0"), d("-2.5"), Value::Number(Decimal::MAX), Value::Number(Decimal::MIN), d("0.0000000000000000000000000001")];
    for op in ["/", "%", "/=", "%="] {
        for z in &zeros {
            for x in &dividends {
                push2(op, x, z, &mut out);
            }
        }
    }
    // decimal overflow: operands within one step of the range
    let big = [
        Value::Number(Decimal::MAX),
        Value::Number(Decimal::MIN),
        Value::Number(Decimal::MAX - Decimal::ONE),
        Value::Number(Decimal::MIN + Decimal::ONE),
        d("7922816251426433759354395033.5"),
        d("-7922816251426433759354395033.5"),
        d("39614081257132168796771975168"),
        d("1"),
        d("-1"),
        d("2"),
        d("0.5"),
        d("1.5"),
        d("10"),
        d("0.1"),
        d("0.0000000000000000000000000001"),
        d("-0.0000000000000000000000000001"),
        d("281474976710656"),
    ];
    for op in ["+", "-", "*", "/", "%", "+=", "-=", "*=", "/=", "%="] {
        for a in &big {
            for b in &big {
                push2(op, a, b, &mut out);
            }
        }
    }
    for a in &big {
        for op in ["++", "--"] {
            out.push(Case { program: format!("a {}", op), bindings: bind(&["a"], &[a]), key: format!("postfix{}:{}", op, class(a)), lenient_err: false });
        }
        for op in ["-", "+"] {
            out.push(Case { program: format!("{} a", op), bindings: bind(&["a"], &[a]), key: format!("prefix{}:{}", op, class(a)), lenient_err: false });
        }
        for b in &big {
            for f in ["sum", "mul", "min", "max"] {
                out.push(Case { program: format!("{}(a, b)", f), bindings: bind(&["a", "b"], &[a, b]), key: format!("{}:{}:{}", f, class(a), class(b)), lenient_err: false });
                out.push(Case { program: format!("{}(a, b, a)", f), bindings: bind(&["a", "b"], &[a, b]), key: format!("{}3:{}:{}", f, class(a), class(b)), lenient_err: false });
            }
        }
    }
    // shifts: every count class x every value class
    let counts = [
        d("-1"), d("0"), d("1"), d("63"), d("64"), d("65"), d("2147483648"), d("4294967295"), d("4294967296"), d("4294967297"),
        d("4294967359"), d("9223372036854775807"), d("9223372036854775808"), d("-9223372036854775808"), d("18446744073709551616"),
        d("0.5"), d("1.0"), d("63.0"), d("64.0"), Value::Number(Decimal::MAX), Value::Bool(true), Value::None,
    ];
    let shifted = [
        d("0"), d("1"), d("-1"), d("2"), d("-9223372036854775808"), d("9223372036854775807"), d("4611686018427387904"),
        d("9223372036854775808"), d("1.0"), d("0.5"), Value::String("1".into()), Value::None,
    ];
    for op in ["<<", ">>", "<<=", ">>="] {
        for c in &counts {
            for x in &shifted {
                push2(op, x, c, &mut out);
            }
        }
    }
    // bit operators: non-integral, scaled-integral and out-of-i64 operands
    let bits = [
        d("0"), d("1"), d("-1"), d("3.0"), d("0.5"), d("-0.5"), d("9223372036854775807"), d("-9223372036854775808"),
        d("9223372036854775808"), d("-9223372036854775809"), d("18446744073709551615"), d("18446744073709551617"),
        Value::Number(Decimal::MAX), Value::Number(Decimal::MIN), d("0.0000000000000000000000000001"), d("12.000"),
    ];
    for op in ["&", "|", "^", "&=", "|=", "^=", "<<", ">>"] {
        for a in &bits {
            for b in &bits {
                push2(op, a, b, &mut out);
            }
        }
    }
    // aggregates with no arguments / empty lists
    for (prog, lenient) in [("min()", false), ("max()", false), ("sum()", true), ("mul()", true), ("AND []", true), ("OR []", true), ("min(x)", false), ("sum(x)", false), ("AND [x]", false), ("AND x", false), ("OR x", false)] {
        out.push(Case { program: prog.into(), bindings: vec![], key: format!("aggregate:{}", prog.replace(' ', "")), lenient_err: lenient });
    }
    // a fault inside a list literal must fail the whole evaluation, not drop the element
    for (a, b) in [(d("1"), d("0")), (Value::Number(Decimal::MAX), d("2")), (d("1"), Value::Bool(true))] {
        for prog in ["[a / b]", "[1, a / b, 2]", "a in [a / b, a]", "AND [a / b < 1, true]", "[a * b] == []", "{1 : a / b}", "min(1, a / b)", "x = [a * b, a / b] ; x", "[a << 70]", "[a | 0.5]"] {
            out.push(Case { program: prog.into(), bindings: bind(&["a", "b"], &[&a, &b]), key: format!("nested-fault:{}:{}:{}", prog.replace(' ', ""), class(&a), class(&b)), lenient_err: false });
        }
    }
    // aggregates: a zero or vanishing running product / sum must not hide an ill-typed later argument
    let agg = [d("0"), d("0.0000000000000000000000000001"), d("2"), Value::Number(Decimal::MAX), Value::Bool(true), Value::String("x".into()), Value::List(vec![]), Value::None];
    for f in ["sum", "mul", "min", "max"] {
        for a in &agg {
            for b in &agg {
                for c in &agg {
                    out.push(Case { program: format!("{}(a, b, c)", f), bindings: bind(&["a", "b", "c"], &[a, b, c]), key: format!("{}:{}:{}:{}", f, class(a), class(b), class(c)), lenient_err: false });
                }
            }
        }
    }
    // aggregates of 4..17 arguments: an overflow (or an ill-typed argument) at every pair of
    // positions (anything that adds or multiplies in blocks has a block boundary in here)
    for n in [4usize, 5, 6, 7, 8, 9, 12, 16, 17] {
        for i in 0..n {
            for j in 0..n {
                if i == j {
                    continue;
                }
                for (f, neutral, big, bump) in [("sum", d("0"), Value::Number(Decimal::MAX), d("1")), ("mul", d("1"), Value::Number(Decimal::MAX), d("2")), ("sum", d("0"), Value::Number(Decimal::MIN), d("-1"))] {
                    let mut args: Vec<Value> = (0..n).map(|_| neutral.clone()).collect();
                    args[i] = big.clone();
                    args[j] = bump.clone();
                    out.push(Case { program: format!("{}({})", f, args.iter().map(as_expr).collect::<Vec<_>>().join(", ")), bindings: vec![], key: format!("{}{}:overflow:{}@{}+{}@{}", f, n, class(&big), i, class(&bump), j), lenient_err: false });
                }
                if j == i + 1 || j == 0 {
                    let mut args: Vec<Value> = (0..n).map(|k| d(&k.to_string())).collect();
                    args[i] = Value::Bool(true);
                    for f in ["sum", "mul", "min", "max"] {
                        out.push(Case { program: format!("{}({})", f, args.iter().map(as_expr).collect::<Vec<_>>().join(", ")), bindings: vec![], key: format!("{}{}:ill-typed@{}", f, n, i), lenient_err: false });
                    }
                }
            }
        }
    }
    // every operator x every wrongly (and rightly) typed operand pair
    let v = alphabet();
    for op in ALL_INFIX {
        for a in &v {
            for b in &v {
                push2(op, a, b, &mut out);
            }
        }
    }
    for op in ["-", "+", "!", "not", "AND", "OR"] {
        for a in &v {
            out.push(Case { program: format!("{} a", op), bindings: bind(&["a"], &[a]), key: format!("prefix{}:{}", op, class(a)), lenient_err: matches!(a, Value::List(l) if l.is_empty()) });
        }
    }
    for op in ["++", "--"] {
        for a in &v {
            out.push(Case { program: format!("a {}", op), bindings: bind(&["a"], &[a]), key: format!("postfix{}:{}", op, class(a)), lenient_err: false });
        }
    }
    out.extend(super::c03::unary_compositions(&v));
    out
}

/// Registrations with arguments outside every documented domain (precedence 0, negative,
/// beyond 10^9, i32 extremes). What such a call itself does is not specified — it may
/// succeed, fail or panic — but evaluation of built-in expressions afterwards is still
/// covered by the property: Ok or Err, never a panic (a registry left poisoned or half
/// updated by the odd call shows here).
const ODD_PRECEDENCES: &[i32] = &[0, -1, -110, i32::MIN, i32::MAX, 1 << 30, 1_000_000_001, 1_073_741_824];

fn odd_registration(i: u64) -> String {
    use expression_engine::{InfixOpAssociativity, InfixOpType};
    use std::sync::Arc;
    let p = ODD_PRECEDENCES[(i as usize) % ODD_PRECEDENCES.len()];
    let left = (i as usize / ODD_PRECEDENCES.len()) % 2 == 0;
    let r = crate::engine::guarded(|| {
        expression_engine::register_infix_op("zzodd", p, InfixOpType::CALC, if left { InfixOpAssociativity::LEFT } else { InfixOpAssociativity::RIGHT }, Arc::new(|a, _| Ok(a)));
        Ok(())
    });
    format!("register_infix_op(zzodd, {}, {}) -> {}", p, if left { "LEFT" } else { "RIGHT" }, r.class())
}

fn n_odd() -> u64 {
    2 * ODD_PRECEDENCES.len() as u64
}

impl Prop for C04 {
    fn id(&self) -> &'static str {
        "C04"
    }
    fn plan(&self, _tier: Tier) -> Plan {
        let n = cases().len() as u64;
        let st = |name: &str| Stage {
            name: name.into(),
            len: n,
            chunk: (n / 20).max(500),
            timeout: Duration::from_secs(900),
            what: format!("the fault product evaluated in the {} build", name),
        };
        Plan {
            stages: vec![
                st("release"),
                st("dev"),
                Stage { name: "release-after-odd-registration".into(), len: n_odd(), chunk: 1, timeout: Duration::from_secs(300), what: "fresh process: one register_infix_op call with a precedence outside the documented domain (0, negative, > 10^9, i32 extremes; the call itself may do anything), then every 97th case of the fault product".into() },
                Stage { name: "dev-after-odd-registration".into(), len: n_odd(), chunk: 1, timeout: Duration::from_secs(300), what: "the same in the dev build".into() },
            ],
            rule: "fault product: {/ % /= %=} x every spelling of zero; {+ - * / % and compound forms, ++ --, prefix -, sum mul min max} x operands within one step of Decimal::MAX/MIN and at 28-digit scale; \
                   {<< >> <<= >>=} x shift counts {-1,0,1,63,64,65,2^31,2^32-1,2^32,2^32+1,2^32+63,2^63-1,2^63,-2^63,2^64, fractional, scaled} x values {0,1,-1,i64::MIN,i64::MAX,2^62,2^63,...}; bit operators x non-integral / scaled / out-of-i64 operands; empty aggregates; every operator x every pair of V. \
                   Run in a release and in a dev build of the engine. Oracle: no unwind, and agreement with the reference evaluator whose arithmetic is checked and whose shifts require 0 <= count <= 63 (a wrapped or masked result is a value mismatch). distinct = distinct (operator, operand-class) key"
                .into(),
            assumptions: vec![
                "the dev profile of the harness (opt-level 1, overflow checks and debug assertions on) stands for 'debug build'".into(),
                "sum(), mul(), AND [], OR [] may return the identity element or an error".into(),
            ],
            exhaustive: true,
            bound: "the edge lattice listed in 'rule', not all decimals".into(),
            states_note: "states = (operator, operand tuple, build) cases; transitions = evaluations compared".into(),
        }
    }
    fn run(&self, _tier: Tier, stage: usize, a: u64, b: u64, out: &mut WorkerOut) {
        let world = World::builtin();
        let cs = cases();
        let name = ["release", "dev", "release-after-odd-registration", "dev-after-odd-registration"][stage];
        // make sure each binary really is what its stage claims
        let checks_on = cfg!(debug_assertions);
        if (stage % 2 == 1) != checks_on {
            out.fail("machinery:wrong-build-profile", format!("{}|profile", name), format!("stage {} ran in a binary with debug_assertions={}", name, checks_on));
            return;
        }
        if stage >= 2 {
            for i in a..b {
                out.at(i);
                let what = odd_registration(i);
                out.sample(what.clone());
                let stage_name = format!("{}[{}]", name, what);
                for c in cs.iter().step_by(97) {
                    run_case(c, &world, &stage_name, out);
                }
                out.nontrivial.insert(hash64(&what));
                out.count("states", 1);
                out.count("transitions", (cs.len() / 97) as u64);
            }
            return;
        }
        for i in a..b {
            out.at(i);
            let c = &cs[i as usize];
            run_case(c, &world, name, out);
            out.nontrivial.insert(hash64(&c.key));
            if i % 30011 == 3 {
                out.sample(format!("[{}] {} with {:?}", name, c.program, c.bindings.iter().map(|(k, v)| format!("{}={}", k, show_value(v))).collect::<Vec<_>>()));
            }
        }
        out.count("states", b - a);
        out.count("transitions", b - a);
    }
    fn case_text(&self, _tier: Tier, stage: usize, i: u64) -> String {
        if stage >= 2 {
            return format!("odd registration {}", i);
        }
        let cs = cases();
        let c = &cs[i as usize];
        format!("{} with {}", c.program, c.bindings.iter().map(|(k, v)| format!("{}={}", k, show_value(v))).collect::<Vec<_>>().join(" "))
    }
    fn min_outcomes(&self) -> usize {
        5
    }
}
