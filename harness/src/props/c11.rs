//! C11 — whitespace and redundant parentheses never change the parse.
use super::c02::programs;
use super::tokens::TokenSeqs;
use crate::core::*;
use crate::engine::{self, Res};
use crate::gen::show;
use crate::model::lex::{lex, OpSet, TK};
use crate::model::parse::{self, count_nodes, Ast, Parens};
use std::time::Duration;

pub struct C11;

const WS1: &[&str] = &[" ", "\t", "\r", "\n"];

fn ws_strings(tier: Tier) -> Vec<String> {
    let mut v: Vec<String> = WS1.iter().map(|s| s.to_string()).collect();
    if tier == Tier::Quick {
        for d in [" \n", "\r\n", "\t\t", "\n\r"] {
            v.push(d.to_string());
        }
        return v;
    }
    for a in WS1 {
        for b in WS1 {
            v.push(format!("{}{}", a, b));
        }
    }
    v
}

fn class_of_boundary(prev: Option<TK>, next: Option<TK>) -> String {
    let n = |k: Option<TK>| k.map(|k| k.name()).unwrap_or("edge");
    format!("{}|{}", n(prev), n(next))
}

fn ws_name(w: &str) -> String {
    w.chars()
        .map(|c| match c {
            ' ' => "sp",
            '\t' => "tab",
            '\r' => "cr",
            '\n' => "lf",
            _ => "?",
        })
        .collect::<Vec<_>>()
        .join("+")
}

/// every subtree wrapped in k extra pairs (one position at a time), and every pair of positions x 1
fn paren_variants(t: &Ast, ops: &OpSet) -> Vec<(String, String)> {
    // print with a marker on chosen subtree positions: walk the tree in pre-order, number
    // the nodes, and re-print with selected nodes wrapped
    fn count(t: &Ast) -> usize {
        1 + match t {
            Ast::Unary(_, x) | Ast::Postfix(x, _) => count(x),
            Ast::Binary(_, l, r) => count(l) + count(r),
            Ast::Ternary(a, b, c) => count(a) + count(b) + count(c),
            Ast::Func(_, v) | Ast::List(v) | Ast::Stmt(v) => v.iter().map(count).sum(),
            Ast::Map(v) => v.iter().map(|(k, x)| count(k) + count(x)).sum(),
            _ => 0,
        }
    }
    // Wrapped(k, inner) is expressed by a reserved call name that the printer output is
    // post-processed for: simpler — print recursively here with explicit wrapping.
    fn pr(t: &Ast, ops: &OpSet, sel: &[(usize, usize)], idx: &mut usize) -> String {
        let me = *idx;
        *idx += 1;
        // skeleton printing with full parentheses around every non-atom child keeps the
        // structure fixed; redundant pairs are then added on the selected nodes
        let body = match t {
            Ast::Unary(op, x) => {
                if let Some((true, iop, l, r)) = parse::as_infix(t, ops) {
                    // negated infix: the inner Binary node is skipped as a position
                    *idx += 1;
                    let ls = child(l, ops, sel, idx);
                    let rs = child(r, ops, sel, idx);
                    format!("{} not {} {}", ls, iop, rs)
                } else {
                    format!("{} {}", op, child(x, ops, sel, idx))
                }
            }
            Ast::Postfix(x, op) => format!("{} {}", child(x, ops, sel, idx), op),
            Ast::Binary(op, l, r) => {
                let ls = child(l, ops, sel, idx);
                let rs = child(r, ops, sel, idx);
                format!("{} {} {}", ls, op, rs)
            }
            Ast::Ternary(a, b, c) => {
                let s1 = child(a, ops, sel, idx);
                let s2 = child(b, ops, sel, idx);
                let s3 = child(c, ops, sel, idx);
                format!("{} ? {} : {}", s1, s2, s3)
            }
            Ast::Func(n, v) => format!("{}({})", n, v.iter().map(|x| pr(x, ops, sel, idx)).collect::<Vec<_>>().join(", ")),
            Ast::List(v) => format!("[{}]", v.iter().map(|x| pr(x, ops, sel, idx)).collect::<Vec<_>>().join(", ")),
            Ast::Stmt(v) => return v.iter().map(|x| pr(x, ops, sel, idx)).collect::<Vec<_>>().join("; "),
            Ast::Map(v) => format!(
                "{{{}}}",
                v.iter()
                    .map(|(k, x)| {
                        let ks = child(k, ops, sel, idx);
                        let xs = pr(x, ops, sel, idx);
                        format!("{} : {}", ks, xs)
                    })
                    .collect::<Vec<_>>()
                    .join(", ")
            ),
            atom => parse::print(atom, ops, Parens::Minimal),
        };
        let extra: usize = sel.iter().filter(|(i, _)| *i == me).map(|(_, k)| *k).sum();
        format!("{}{}{}", "(".repeat(extra), body, ")".repeat(extra))
    }
    fn child(t: &Ast, ops: &OpSet, sel: &[(usize, usize)], idx: &mut usize) -> String {
        let atom = matches!(t, Ast::Num(_) | Ast::Bool(_) | Ast::Str(_) | Ast::Ref(_) | Ast::Func(..) | Ast::List(_) | Ast::Map(_));
        let s = pr(t, ops, sel, idx);
        if atom {
            s
        } else {
            format!("({})", s)
        }
    }
    let n = count(t);
    let mut out = Vec::new();
    let base = {
        let mut i = 0;
        pr(t, ops, &[], &mut i)
    };
    let is_stmt = matches!(t, Ast::Stmt(_));
    for pos in 0..n {
        if is_stmt && pos == 0 {
            continue; // a statement chain is not an expression that can be parenthesised
        }
        for k in 1..=3 {
            let mut i = 0;
            out.push((format!("pos{}x{}", pos.min(3), k), pr(t, ops, &[(pos, k)], &mut i)));
        }
        for pos2 in (pos + 1)..n {
            let mut i = 0;
            out.push(("pair".to_string(), pr(t, ops, &[(pos, 1), (pos2, 1)], &mut i)));
        }
    }
    out.insert(0, ("base".into(), base));
    out
}

/// inputs the parser rejects at different places (first operand, after an operator, inside
/// brackets / calls / maps / conditionals, lexical errors)
const REJECTED: &[&str] = &["(", "((((", "max(1,", "[1, 2,", "{1 :", "1 +", "a ?", "a ? b :", "f(g(h(", "- ", "1 )", "'abc", "1..2", "[(])", "a not", "x = (", "* 3", "{[("];

fn deep_layouts(after_rejections: usize, out: &mut WorkerOut) {
    if after_rejections > 0 {
        // history ladder: the thread parses rejected inputs, and after 1, 2, 4, ... rounds (one
        // round = every input of REJECTED once) the layout grid is checked again; a layout rule
        // must not depend on what was parsed (and rejected) before
        let mut done = 0usize;
        let mut next = 1usize;
        while done < after_rejections {
            while done < next.min(after_rejections) {
                for r in REJECTED {
                    let _ = engine::parse(r);
                    out.evals += 1;
                }
                done += 1;
            }
            layout_grid(done, out);
            next *= 2;
        }
        return;
    }
    layout_grid(0, out);
}

fn layout_grid(after_rejections: usize, out: &mut WorkerOut) {
    let hist = if after_rejections > 0 { "after-rejected-inputs:" } else { "" };
    let grid = [0usize, 1, 8, 31, 32, 33, 64, 100];
    let tails = ["x + 1", "f(x , [y])", "- x ++", "c ? x : y", "f (x)", "g ( ) + x", "x not in [y]",
        // names that are control characters, between long whitespace runs (bulk whitespace skipping
        // that tests bytes with a range comparison takes them for blanks)
        "x + \u{1} + y", "[x , \u{1f} , y]", "\u{b} ; \u{c} ; x",
        // a name followed (after blanks) by a call whose name is a character Unicode calls whitespace
        "x \u{3000}(y)", "x \u{a0}(y) + 1"];
    for k in grid {
        let prefix: String = (0..k).map(|i| format!("v{} ++ ; ", i)).collect();
        for tail in tails {
            let plain = format!("{}{}", prefix, tail);
            let base = match engine::parse(&plain) {
                Res::Ok(a) => a,
                _ => {
                    // not an accepted program (here): nothing to re-lay-out. (A program that stops
                    // being accepted because of earlier calls is C16's finding, not C11's.)
                    out.count("deep_base_rejected", 1);
                    continue;
                }
            };
            for m in grid {
                out.evals += 1;
                out.count("transitions", 1);
                let wrapped = format!("{}{}", prefix, tail.replacen('x', &format!("{}x{}", "(".repeat(m), ")".repeat(m)), 1));
                let spaced = plain.replace(' ', &" \t\r\n".repeat(m.max(1) * 3 / 4 + 1));
                for (what, v) in [("parens", wrapped), ("whitespace", spaced)] {
                    match engine::parse(&v) {
                        Res::Ok(a) if a == base => {
                            out.outcomes.insert("same".into());
                            out.count("validated", 1);
                        }
                        other => {
                            let class = |n: usize| if n >= 31 { ">=31" } else { "<31" };
                            out.fail(
                                format!("{}deep-{}:changes-parse:postfix-statements{}:multiplicity{}", hist, what, class(k), class(m)),
                                format!("deep|{}{} earlier postfix statements, {} x{} in {:?}", if after_rejections > 0 { format!("after {} x {} rejected inputs: ", after_rejections, REJECTED.len()) } else { String::new() }, k, what, m, tail),
                                format!("the plain program is accepted; this layout gives {:?}", other.class()),
                            );
                        }
                    }
                }
            }
        }
    }
    // programs written WITHOUT any whitespace, whitespace then inserted at one token boundary at
    // a time (boundaries from the reference lexer): names that are characters Unicode calls
    // whitespace, calls directly after names, operators glued to operands
    let ops = OpSet::builtin();
    for tight in ["x\u{3000}(y)", "x\u{a0}(y)+1", "a\u{c}(b)", "f(x)g(y)", "a\u{2028}b(c)", "x-\u{a0}+y", "[a\u{3000}(1),b]"] {
        let base = match engine::parse(tight) {
            Res::Ok(a) => a,
            _ => {
                out.count("deep_base_rejected", 1);
                continue;
            }
        };
        let toks = match lex(tight, &ops) {
            Ok(t) => t,
            Err(_) => continue,
        };
        for b in 1..toks.len() {
            for w in [" ", "\t", "\n", " \r\n ", "        ", "                 "] {
                let at = toks[b].start;
                let variant = format!("{}{}{}", &tight[..at], w, &tight[at..]);
                out.evals += 1;
                out.count("transitions", 1);
                match engine::parse(&variant) {
                    Res::Ok(a) if a == base => {
                        out.outcomes.insert("same".into());
                        out.count("validated", 1);
                    }
                    other => out.fail(
                        format!("{}tight-program:whitespace-inserted:changes-parse", hist),
                        format!("deep|{:?} with {:?} inserted before token {}", tight, w, b),
                        format!("the compact program is accepted; this layout gives {:?}", other.class()),
                    ),
                }
            }
        }
    }
    out.nontrivial.insert(hash64("deep"));
    out.count("states", 1);
}

impl Prop for C11 {
    fn id(&self) -> &'static str {
        "C11"
    }
    fn plan(&self, tier: Tier) -> Plan {
        let n = programs(tier).len() as u64;
        Plan {
            stages: vec![
                Stage {
                    name: "whitespace".into(),
                    len: n,
                    chunk: (n / 20).max(200),
                    timeout: Duration::from_secs(1200),
                    what: "for every program: every token boundary x every whitespace string of the tier (quick: 4 singles + 4 pairs; thorough: all 20 over {sp,tab,CR,LF}^{1,2}) (one boundary at a time; existing whitespace replaced), all boundaries at once, leading and trailing".into(),
                },
                Stage {
                    name: "deep".into(),
                    len: 2,
                    chunk: 1,
                    timeout: Duration::from_secs(300),
                    what: "grid of (number of earlier postfix statements, paren multiplicity) and very long whitespace runs; case 1: the same after the thread has parsed 18 kinds of rejected input 1100 (thorough: 66000) times each".into(),
                },
                Stage {
                    name: "parens".into(),
                    len: n,
                    chunk: (n / 20).max(200),
                    timeout: Duration::from_secs(1200),
                    what: "for every program: every subexpression wrapped in 1..3 redundant pairs, and every pair of subexpressions wrapped once".into(),
                },
                Stage {
                    name: "dual-role-whitespace".into(),
                    len: 1,
                    chunk: 1,
                    timeout: Duration::from_secs(600),
                    what: "fresh process with `%` also postfix, `*` also prefix, `!` and `++` also infix: the whitespace variants of every tree of <= 2 nodes over those operators".into(),
                },
                Stage {
                    name: "dual-role-parens".into(),
                    len: 1,
                    chunk: 1,
                    timeout: Duration::from_secs(600),
                    what: "the same table: redundant parentheses around every subexpression of those trees".into(),
                },
                Stage {
                    name: "dual-role-atom-parens".into(),
                    len: 1,
                    chunk: 1,
                    timeout: Duration::from_secs(900),
                    what: "the same table, engine against engine, no reference parser: for every sequence of <= 5 tokens over {1, x, %, *, !, ++, (, ), +, -, [, ], NOT, not} that the engine accepts, each atom (not directly after a name, where parentheses would make a call) and each bracketed list wrapped in a pair of parentheses, and a blank added on either side of each token, must give the AST of the original".into(),
                },
            ],
            rule: "stage 'deep': k postfix statements followed by an operand wrapped in m redundant pairs, and runs of 300 whitespace characters, for k, m in {0,1,8,31,32,33,64,100} (capacity effects; engine against engine). programs = the shared tree set (<= 3 operator nodes over every node kind; string literals containing spaces, parentheses and a double quote), restricted to those the engine parses to the generator's tree; \
                   oracle = AST equality with the parse of the original text; non-trivial = >= 1 operator node, distinct = distinct program (each is re-laid-out in all the ways counted under evaluations)"
                .into(),
            assumptions: vec!["token boundaries come from the reference lexer, which C10 checks against the engine".into()],
            exhaustive: true,
            bound: format!("{} programs; whitespace strings of length <= 2; paren multiplicity <= 3, pairs of positions", n),
            states_note: "states = (program, layout) variants parsed; transitions = one re-layout each".into(),
        }
    }
    fn run(&self, tier: Tier, stage: usize, a: u64, b: u64, out: &mut WorkerOut) {
        let ops = OpSet::builtin();
        // an operator no program can contain (its prefix `<-` is not an operator, so the tokenizer
        // never reaches it): its mere registration must not change how `a<-1` is read
        expression_engine::register_infix_op("<->", 55, expression_engine::InfixOpType::CALC, expression_engine::InfixOpAssociativity::LEFT, std::sync::Arc::new(|a, _| Ok(a)));
        if stage == 5 {
            out.at(0);
            let _ = super::c02::install_dual_role();
            let seqs = TokenSeqs { alphabet: super::c02::DUAL_TOKENS.to_vec(), max_len: 5 };
            for i in 0..seqs.len() {
                let toks = seqs.tokens(i);
                let text = toks.join(" ");
                let base = match engine::parse(&text) {
                    Res::Ok(a) => a,
                    _ => continue,
                };
                out.nontrivial.insert(hash64(&format!("{:?}", base)));
                let mut variants: Vec<(String, String)> = Vec::new();
                for k in 0..toks.len() {
                    let atom = toks[k] == "1" || toks[k] == "x";
                    let after_name = k > 0 && toks[k - 1] == "x";
                    // (a name directly before `(` is the name of a call, not a subexpression)
                    let callee = toks[k] == "x" && k + 1 < toks.len() && toks[k + 1] == "(";
                    if atom && !after_name && !callee {
                        let mut v: Vec<String> = toks.iter().map(|t| t.to_string()).collect();
                        v[k] = format!("( {} )", toks[k]);
                        variants.push(("atom-wrapped".into(), v.join(" ")));
                    }
                    if toks[k] == "[" && !after_name {
                        // the matching bracket, if the list is closed
                        let mut depth = 0i32;
                        for m in k..toks.len() {
                            if toks[m] == "[" {
                                depth += 1;
                            }
                            if toks[m] == "]" {
                                depth -= 1;
                                if depth == 0 {
                                    let mut v: Vec<String> = toks.iter().map(|t| t.to_string()).collect();
                                    v[k] = "( [".into();
                                    v[m] = "] )".into();
                                    variants.push(("list-wrapped".into(), v.join(" ")));
                                    break;
                                }
                            }
                        }
                    }
                    let mut v: Vec<String> = toks.iter().map(|t| t.to_string()).collect();
                    v[k] = format!(" \t{}\n ", toks[k]);
                    variants.push(("blanks-added".into(), v.join(" ")));
                }
                for (what, vt) in variants {
                    out.evals += 1;
                    match engine::parse(&vt) {
                        Res::Ok(a) if a == base => {
                            out.count("validated", 1);
                            out.outcomes.insert("same-ast".into());
                        }
                        other => out.fail(format!("dual-role:{}:changes-ast", what), format!("dual-role-atom-parens|{}", show(&text)), format!("{:?} parses to {:?}, but {:?} gives {:?}", text, base, vt, other)),
                    }
                }
            }
            out.count("states", seqs.len());
            out.count("transitions", seqs.len());
            return;
        }
        if stage == 1 {
            if a == 0 {
                deep_layouts(0, out);
            } else {
                deep_layouts(tier.pick(1100, 66000), out);
            }
            return;
        }
        let dual = stage >= 3;
        let stage = if stage == 2 || stage == 4 { 1 } else if stage == 3 { 0 } else { stage };
        let (ops, progs, a, b) = if dual {
            // operators that exist in two positions under one symbol (registered here: fresh process)
            use crate::gen::{relabel, trees_by_size, Kind};
            let ops = super::c02::install_dual_role();
            let kinds = vec![
                Kind::Infix("%".into()), Kind::Postfix("%".into()), Kind::Infix("*".into()), Kind::Prefix("*".into()),
                Kind::Infix("!".into()), Kind::Prefix("!".into()), Kind::Infix("++".into()), Kind::Postfix("++".into()), Kind::Infix("+".into()), Kind::Infix("\u{2264}".into()), Kind::Call(1), Kind::List(1), Kind::Map(1),
            ];
            let rot = crate::gen::leaf_rotation();
            let mut v = Vec::new();
            for sz in trees_by_size(&kinds, 2).iter().skip(1) {
                for t in sz {
                    // not defined by any property: an operator that is both postfix and infix, directly
                    // after an operand that already carries a postfix operator (`1 % ++ b`) — the
                    // engine takes one postfix operator per operand, so there a pair of parentheses
                    // decides between "second postfix" and "infix"
                    let ambiguous = |t: &Ast| -> bool {
                        fn go(t: &Ast) -> bool {
                            match t {
                                Ast::Binary(op, l, r) => ((op == "%" || op == "++") && matches!(**l, Ast::Postfix(..))) || go(l) || go(r),
                                Ast::Unary(_, x) | Ast::Postfix(x, _) => go(x),
                                Ast::Func(_, v) | Ast::List(v) => v.iter().any(go),
                                Ast::Map(v) => v.iter().any(|(k, x)| go(k) || go(x)),
                                _ => false,
                            }
                        }
                        go(t)
                    };
                    if ambiguous(t) {
                        continue;
                    }
                    for off in [0usize, 1, 7] {
                        let mut n = off;
                        v.push(relabel(t, &mut n, &rot));
                    }
                }
            }
            let n = v.len() as u64;
            (ops, v, 0, n)
        } else {
            (ops, programs(tier), a, b)
        };
        let wss = ws_strings(tier);
        for i in a..b {
            out.at(i);
            let t = &progs[i as usize];
            let text = parse::print(t, &ops, Parens::Minimal);
            let base = match engine::parse(&text) {
                Res::Ok(ast) if &ast == t => ast,
                Res::Err(_) if stage == 0 => {
                    // the compact text is rejected (C02's finding). If the same tokens with MORE
                    // whitespace between them are accepted, that accepted program changes its
                    // parse when the amount of whitespace changes: C11's finding too
                    out.count("skipped_c02_findings", 1);
                    if let Ok(toks) = lex(&text, &ops) {
                        for w in ["  ", " \t ", "\n\n\n"] {
                            let mut variant = String::new();
                            for t in &toks {
                                variant.push_str(&text[t.start..t.end]);
                                variant.push_str(w);
                            }
                            out.evals += 1;
                            if let Res::Ok(ast) = engine::parse(&variant) {
                                if &ast == t {
                                    out.fail("whitespace:accepted-only-with-more-whitespace", format!("whitespace|{}", show(&variant)), format!("{:?} is rejected, {:?} parses to the expected tree", text, variant));
                                    break;
                                }
                            }
                        }
                    }
                    continue;
                }
                _ => {
                    out.count("skipped_c02_findings", 1);
                    continue;
                }
            };
            let nontrivial = count_nodes(t) >= 1;
            if stage == 0 {
                let toks = lex(&text, &ops).expect("valid program lexes");
                let check = |variant: &str, key: String, out: &mut WorkerOut| {
                    out.evals += 1;
                    match engine::parse(variant) {
                        Res::Ok(ast) if ast == base => {
                            out.outcomes.insert("same".into());
                            out.count("validated", 1);
                        }
                        Res::Ok(ast) => {
                            out.outcomes.insert("different".into());
                            out.fail(format!("whitespace:changes-ast:{}", key), format!("whitespace|{}", show(variant)), format!("original {:?} parses to {:?}, variant to {:?}", text, base, ast))
                        }
                        Res::Err(e) => {
                            out.outcomes.insert("rejected".into());
                            out.fail(format!("whitespace:rejected:{}", key), format!("whitespace|{}", show(variant)), format!("original {:?} is accepted; variant: {}", text, e))
                        }
                        Res::Panic(m) => out.fail("panic:parse", format!("whitespace|{}", show(variant)), m),
                    }
                };
                // boundaries: before token 0, between tokens, after the last token
                for bi in 0..=toks.len() {
                    let (lo, hi) = if bi == 0 {
                        (0, toks.first().map(|t| t.start).unwrap_or(0))
                    } else if bi == toks.len() {
                        (toks[bi - 1].end, text.len())
                    } else {
                        (toks[bi - 1].end, toks[bi].start)
                    };
                    let class = class_of_boundary(
                        if bi == 0 { None } else { Some(toks[bi - 1].kind) },
                        toks.get(bi).map(|t| t.kind),
                    );
                    for w in &wss {
                        let variant = format!("{}{}{}", &text[..lo], w, &text[hi..]);
                        check(&variant, format!("{}:{}", class, ws_name(w)), out);
                    }
                }
                // the other direction: a boundary whose whitespace is not needed to keep the tokens
                // apart. The compact text is itself an accepted program (same tokens by the
                // reference lexer), and the original is that program with whitespace added.
                let same_tokens = |v: &str| match lex(v, &ops) {
                    Ok(t2) => t2.len() == toks.len() && t2.iter().zip(&toks).all(|(x, y)| x.kind == y.kind && x.text == y.text),
                    Err(_) => false,
                };
                let mut compact = String::new();
                for (k, t) in toks.iter().enumerate() {
                    if k > 0 {
                        let glued = format!("{}{}", compact, &text[t.start..t.end]);
                        let rest: String = toks[k + 1..].iter().map(|x| format!(" {}", &text[x.start..x.end])).collect();
                        if !same_tokens(&format!("{}{}", glued, rest)) {
                            compact.push(' ');
                        }
                    }
                    compact.push_str(&text[t.start..t.end]);
                }
                if same_tokens(&compact) && compact != text {
                    check(&compact, "all-removable-whitespace-removed".to_string(), out);
                }
                for bi in 1..toks.len() {
                    let (lo, hi) = (toks[bi - 1].end, toks[bi].start);
                    if lo < hi {
                        let variant = format!("{}{}", &text[..lo], &text[hi..]);
                        if same_tokens(&variant) {
                            let class = class_of_boundary(Some(toks[bi - 1].kind), Some(toks[bi].kind));
                            check(&variant, format!("{}:removed", class), out);
                        }
                    }
                }
                // all boundaries at once, one whitespace string each time
                for w in &wss {
                    let mut variant = String::new();
                    variant.push_str(w);
                    for t in &toks {
                        variant.push_str(&text[t.start..t.end]);
                        variant.push_str(w);
                    }
                    check(&variant, format!("all-boundaries:{}", ws_name(w)), out);
                }
                out.count("transitions", (toks.len() as u64 + 2) * wss.len() as u64);
            } else {
                for (key, variant) in paren_variants(t, &ops) {
                    out.evals += 1;
                    match engine::parse(&variant) {
                        Res::Ok(ast) if ast == base => {
                            out.outcomes.insert("same".into());
                            out.count("validated", 1);
                        }
                        Res::Ok(ast) => {
                            out.outcomes.insert("different".into());
                            out.fail(format!("parens:changes-ast:{}:{}", key, super::c02::shape_key(t, &ops)), format!("parens|{}", show(&variant)), format!("expected {:?}, got {:?}", base, ast))
                        }
                        Res::Err(e) => {
                            out.outcomes.insert("rejected".into());
                            out.fail(format!("parens:rejected:{}:{}", key, super::c02::shape_key(t, &ops)), format!("parens|{}", show(&variant)), format!("original {:?} accepted; variant: {}", text, e))
                        }
                        Res::Panic(m) => out.fail("panic:parse", format!("parens|{}", show(&variant)), m),
                    }
                    out.count("transitions", 1);
                }
            }
            out.count("states", 1);
            if nontrivial {
                out.nontrivial.insert(hash64(&text));
            }
            if i % 4001 == 1 {
                out.sample(show(&text));
            }
        }
    }
    fn case_text(&self, tier: Tier, stage: usize, i: u64) -> String {
        if stage >= 3 {
            return "dual-role operator table".to_string();
        }
        let ops = OpSet::builtin();
        show(&parse::print(&programs(tier)[i as usize], &ops, Parens::Minimal))
    }
    fn min_outcomes(&self) -> usize {
        1
    }
}
