//! C12 — expr() output re-parses to the same AST; rendering is idempotent.
//! Pure round trip on every AST the *parser* returns for the shared program set (minimal
//! and full parenthesisation) and for every accepted token sequence; no model involved in
//! the verdict (the model printer only produces inputs).
use super::c02::{programs, shape_key};
use super::tokens::*;
use crate::core::*;
use crate::engine::{self, Res};
use crate::gen::show;
use crate::model::lex::OpSet;
use crate::model::parse::{self, count_nodes, Ast, Parens};
use std::time::Duration;

pub struct C12;

fn seqs(tier: Tier) -> TokenSeqs {
    TokenSeqs { alphabet: TOKENS.to_vec(), max_len: tier.pick(5, 6) }
}

fn has_string_with(t: &Ast, q: char) -> bool {
    match t {
        Ast::Str(s) => s.contains(q),
        Ast::Unary(_, x) | Ast::Postfix(x, _) => has_string_with(x, q),
        Ast::Binary(_, l, r) => has_string_with(l, q) || has_string_with(r, q),
        Ast::Ternary(a, b, c) => has_string_with(a, q) || has_string_with(b, q) || has_string_with(c, q),
        Ast::Func(_, v) | Ast::List(v) | Ast::Stmt(v) => v.iter().any(|x| has_string_with(x, q)),
        Ast::Map(v) => v.iter().any(|(k, x)| has_string_with(k, q) || has_string_with(x, q)),
        _ => false,
    }
}

fn dual_seqs() -> TokenSeqs {
    TokenSeqs { alphabet: super::c02::DUAL_TOKENS.to_vec(), max_len: 6 }
}

pub fn roundtrip(text: &str, ops: &OpSet, stage: &str, out: &mut WorkerOut) {
    let case = || format!("{}|{}", stage, show(text));
    let p = match engine::parse_full(text) {
        Res::Ok(p) => p,
        Res::Err(_) => {
            out.outcomes.insert("input-rejected".into());
            return;
        }
        Res::Panic(m) => {
            out.fail("panic:parse", case(), m);
            return;
        }
    };
    out.evals += 1;
    let s1 = match &p.expr {
        Res::Ok(s) => s.clone(),
        Res::Panic(m) => {
            out.fail(format!("panic:expr:{}", shape_key(&p.ast, ops)), case(), m.clone());
            return;
        }
        Res::Err(_) => return,
    };
    match engine::parse_full(&s1) {
        Res::Ok(p2) => {
            if p2.ast != p.ast {
                out.outcomes.insert("reparse-differs".into());
                let quote = if has_string_with(&p.ast, '"') { ":string-with-dquote" } else { "" };
                out.fail(
                    format!("roundtrip:differs:{}{}", shape_key(&p.ast, ops), quote),
                    case(),
                    format!("expr() = {:?}; original {:?}; re-parsed {:?}", s1, p.ast, p2.ast),
                );
                return;
            }
            match &p2.expr {
                Res::Ok(s2) if *s2 == s1 => {
                    out.outcomes.insert("roundtrip-ok".into());
                    out.count("validated", 1);
                }
                Res::Ok(s2) => out.fail(
                    format!("roundtrip:not-idempotent:{}", shape_key(&p.ast, ops)),
                    case(),
                    format!("expr() = {:?}, expr() of the re-parsed tree = {:?}", s1, s2),
                ),
                _ => out.fail("panic:expr:second", case(), "expr() of the re-parsed tree failed"),
            }
        }
        Res::Err(e) => {
            out.outcomes.insert("reparse-rejected".into());
            out.fail(
                format!("roundtrip:rejected:{}", shape_key(&p.ast, ops)),
                case(),
                format!("expr() = {:?} is rejected: {}", s1, e),
            );
        }
        Res::Panic(m) => out.fail("panic:reparse", case(), m),
    }
    if count_nodes(&p.ast) >= 1 {
        out.nontrivial.insert(hash64(&format!("{:?}", p.ast)));
    }
}

impl Prop for C12 {
    fn id(&self) -> &'static str {
        "C12"
    }
    fn plan(&self, tier: Tier) -> Plan {
        let n = programs(tier).len() as u64;
        let s = seqs(tier);
        Plan {
            stages: vec![
                Stage {
                    name: "trees".into(),
                    len: n,
                    chunk: (n / 20).max(500),
                    timeout: Duration::from_secs(900),
                    what: "ASTs parsed from the program set printed minimally and fully parenthesised (full parenthesisation makes the parser build every operator under every other on either side)".into(),
                },
                Stage {
                    name: "tokens".into(),
                    len: s.len(),
                    chunk: (s.len() / 64).max(2000),
                    timeout: Duration::from_secs(1200),
                    what: format!("ASTs parsed from every accepted token sequence of <= {} tokens", s.max_len),
                },
                Stage {
                    name: "reregister".into(),
                    len: 2 * rereg_histories().len() as u64,
                    chunk: 1,
                    timeout: Duration::from_secs(60),
                    what: "registration histories of one infix operator (fresh process each), round trip after every step".into(),
                },
                Stage {
                    name: "deep".into(),
                    len: super::c03::deep_cases().len() as u64,
                    chunk: 40,
                    timeout: Duration::from_secs(600),
                    what: "19 chain / nesting shapes (operator chains, parentheses, lists, calls, conditionals, prefix chains, `not in` nests, maps) at sizes around 16, 32, 64, 128, 256, 512, 1024: round trip".into(),
                },
                Stage {
                    name: "schedules".into(),
                    len: super::c13::render_workloads().len() as u64,
                    chunk: 1,
                    timeout: Duration::from_secs(900),
                    what: "a round trip through expr() racing a re-registration of an operator it renders (same precedence and associativity, another handler), under the controlled scheduler: all schedules with <= 2 (3) preemptions; every round trip must come out 'same'".into(),
                },
                Stage {
                    name: "mixed-associativity".into(),
                    len: MIXED.len() as u64,
                    chunk: 1,
                    timeout: Duration::from_secs(60),
                    what: "a registered operator that shares a precedence level with built-in operators of the other associativity (fresh process each): every fully parenthesised tree of <= 3 nodes over it and the built-ins of that level must round-trip (no grouping rule is assumed: the round trip is engine against engine)".into(),
                },
                Stage {
                    name: "dual-role".into(),
                    len: dual_seqs().len(),
                    chunk: (dual_seqs().len() / 32).max(1000),
                    timeout: Duration::from_secs(900),
                    what: "fresh processes with `%` also postfix, `*` also prefix, `!` and `++` also infix: every sequence of <= 6 tokens over {1, x, %, *, !, ++, (, ), +, -, [, ], NOT, not}, spaced and glued, that the engine accepts must round-trip (engine against engine)".into(),
                },
            ],
            rule: "stage 'reregister': every history of <= 3 registrations of one infix operator with (precedence, associativity) drawn from {105,125}x{LEFT,RIGHT}, each history in a fresh process, the 18 two-operator trees over {xop,*,+} round-tripped after every registration (a renderer that remembers binding powers across a re-registration fails here). \
                   for every AST t the parser returns on the inputs: parse(t.expr()) == t and expr() of the re-parsed tree is the same string; non-trivial = >= 1 operator node, distinct = distinct AST; \
                   the fully parenthesised renderings additionally put lower-precedence and same-precedence operators on both sides of every operator, compound operands under prefix/postfix operators, conditionals as operands and conditions"
                .into(),
            assumptions: vec!["names are not operator words (as the property requires)".into()],
            exhaustive: true,
            bound: format!("{} program trees x 2 renderings + all accepted sequences of <= {} tokens", n, s.max_len),
            states_note: "states = distinct ASTs round-tripped; transitions = render + re-parse steps".into(),
        }
    }
    fn run(&self, tier: Tier, stage: usize, a: u64, b: u64, out: &mut WorkerOut) {
        let ops = OpSet::builtin();
        if stage == 0 {
            let progs = programs(tier);
            for i in a..b {
            out.at(i);
                let t = &progs[i as usize];
                // put the tree through the parser in shapes the parser would not choose itself
                for variant in forced_shapes(t) {
                    let text = parse::print(&variant, &ops, Parens::Full);
                    roundtrip(&text, &ops, "trees", out);
                }
                let text = parse::print(t, &ops, Parens::Minimal);
                roundtrip(&text, &ops, "trees", out);
                if i % 9973 == 1 {
                    out.sample(show(&text));
                }
            }
            out.count("states", b - a);
            out.count("transitions", 2 * (b - a));
            return;
        }
        if stage == 3 {
            let cases = super::c03::deep_cases();
            for i in a..b {
                out.at(i);
                let c = &cases[i as usize];
                let mut tmp = WorkerOut::default();
                roundtrip(&c.program, &ops, "deep", &mut tmp);
                let fails = std::mem::take(&mut tmp.fails);
                out.merge(tmp);
                for (k, (f, _)) in fails {
                    let k = k.split(':').take(2).collect::<Vec<_>>().join(":");
                    out.fail(format!("{}:{}", k, c.key.split(':').take(2).collect::<Vec<_>>().join(":")), format!("deep|{}", c.key), f.detail.chars().take(300).collect::<String>());
                }
            }
            out.count("states", b - a);
            out.count("transitions", b - a);
            return;
        }
        if stage == 4 {
            let ws = super::c13::render_workloads();
            for i in a..b {
                out.at(i);
                super::c13::check_workload(&ws[i as usize], tier.pick(2, 3), Duration::from_secs(tier.pick(60, 600)), out);
            }
            return;
        }
        if stage == 5 {
            for i in a..b {
                out.at(i);
                run_mixed(MIXED[i as usize], out);
            }
            return;
        }
        if stage == 6 {
            let dops = super::c02::install_dual_role();
            let seqs = dual_seqs();
            // (glued, `1not!1` reads `not` as a NAME: trees with a name that is an operator word
            // are outside the property)
            fn opword_name(t: &Ast, ops: &OpSet) -> bool {
                let is = |n: &str| n == "not" || ops.infix.contains_key(n) || ops.prefix.contains(n) || ops.postfix.contains(n);
                match t {
                    Ast::Ref(n) => is(n),
                    Ast::Func(n, v) => is(n) || v.iter().any(|x| opword_name(x, ops)),
                    Ast::Unary(_, x) | Ast::Postfix(x, _) => opword_name(x, ops),
                    Ast::Binary(_, l, r) => opword_name(l, ops) || opword_name(r, ops),
                    Ast::Ternary(a, b, c) => opword_name(a, ops) || opword_name(b, ops) || opword_name(c, ops),
                    Ast::List(v) | Ast::Stmt(v) => v.iter().any(|x| opword_name(x, ops)),
                    Ast::Map(v) => v.iter().any(|(k, x)| opword_name(k, ops) || opword_name(x, ops)),
                    _ => false,
                }
            }
            for i in a..b {
                out.at(i);
                for text in [seqs.spaced(i), seqs.glued(i)] {
                    if let Res::Ok(t) = engine::parse(&text) {
                        if opword_name(&t, &dops) {
                            out.count("skipped_name_is_an_operator_word", 1);
                            continue;
                        }
                    }
                    // one recorded defect class (known_findings.txt): `a not S b` where S is a postfix
                    // operator AND an infix operator is the only spelling that reaches the infix S;
                    // its rendering `not (a S b)` reads S as postfix again. Keyed by the symbol, so
                    // that anything else that fails under this table keeps its own key.
                    let mut tmp = WorkerOut::default();
                    roundtrip(&text, &dops, "dual-role", &mut tmp);
                    let fails = std::mem::take(&mut tmp.fails);
                    out.merge(tmp);
                    for (k, (f, _)) in fails {
                        let squeezed: String = text.chars().filter(|c| *c != ' ').collect();
                        let sym = ["%", "++"].into_iter().find(|s| squeezed.contains(&format!("not{}", s)));
                        match sym {
                            Some(sym) if k.starts_with("roundtrip:") => out.fail(format!("roundtrip:dual-role:not-before-a-symbol-that-is-also-postfix:{}", sym), f.case.clone(), f.detail.clone()),
                            _ => out.fail(k, f.case.clone(), f.detail.clone()),
                        }
                    }
                }
            }
            out.count("states", b - a);
            out.count("transitions", 2 * (b - a));
            return;
        }
        if stage == 2 {
            let hs = rereg_histories();
            for i in a..b {
            out.at(i);
                // second half: the same histories with every re-registration (all steps but the
                // first) made by another, joined thread
                let (h, xthread) = (&hs[i as usize % hs.len()], i as usize >= hs.len());
                run_rereg(h, xthread, out);
                out.count("states", h.len() as u64);
                out.count("transitions", h.len() as u64);
            }
            return;
        }
        let s = seqs(tier);
        for i in a..b {
            out.at(i);
            let text = s.spaced(i);
            roundtrip(&text, &ops, "tokens", out);
        }
        out.count("states", b - a);
        out.count("transitions", b - a);
    }
    fn case_text(&self, tier: Tier, stage: usize, i: u64) -> String {
        if stage == 0 {
            let ops = OpSet::builtin();
            return show(&parse::print(&programs(tier)[i as usize], &ops, Parens::Minimal));
        }
        if stage == 3 {
            return super::c03::deep_cases()[i as usize].key.clone();
        }
        if stage == 4 {
            return super::c13::render_workloads()[i as usize].name.to_string();
        }
        if stage == 6 {
            return dual_seqs().spaced(i);
        }
        if stage == 5 {
            return format!("{:?}", MIXED[i as usize]);
        }
        if stage == 2 {
            let hs = rereg_histories();
            return format!("{:?}{}", hs[i as usize % hs.len()], if i as usize >= hs.len() { " re-registrations by another thread" } else { "" });
        }
        show(&seqs(tier).spaced(i))
    }
}

/// (precedence, left-associative?, the built-in operators on that level): `xop` registered on
/// a built-in level with the OTHER associativity
const MIXED: &[(i32, bool, &[&str])] = &[(100, false, &["<<", ">>"]), (110, false, &["+", "-"]), (120, false, &["*", "/", "%"]), (20, true, &["=", "+="]), (60, false, &["<", "=="]), (200, false, &["in"])];

fn run_mixed(case: (i32, bool, &[&str]), out: &mut WorkerOut) {
    use crate::gen::{relabel, trees_by_size, Kind};
    use expression_engine::{InfixOpAssociativity, InfixOpType};
    use std::sync::Arc;
    let (prec, left, builtins) = case;
    expression_engine::register_infix_op("xop", prec, InfixOpType::CALC, if left { InfixOpAssociativity::LEFT } else { InfixOpAssociativity::RIGHT }, Arc::new(|a, _| Ok(a)));
    // the model table is only used to PRINT (fully parenthesised) and to name shapes
    let mut ops = OpSet::builtin();
    ops.infix.insert("xop".into(), crate::model::lex::InfixInfo { prec, left, setter: false });
    let mut kinds: Vec<Kind> = vec![Kind::Infix("xop".into())];
    kinds.extend(builtins.iter().map(|o| Kind::Infix(o.to_string())));
    let trees = trees_by_size(&kinds, 3);
    let rot = crate::gen::leaf_rotation();
    let mut tmp = WorkerOut::default();
    for t in trees[1].iter().chain(trees[2].iter()).chain(trees[3].iter()) {
        let mut n = 0;
        let t = relabel(t, &mut n, &rot);
        let text = parse::print(&t, &ops, Parens::Full);
        roundtrip(&text, &ops, "x", &mut tmp);
    }
    let fails = std::mem::take(&mut tmp.fails);
    out.merge(tmp);
    for (k, (f, _)) in fails {
        out.fail(format!("mixed-associativity:{}", k), format!("mixed-associativity|{:?}", case), format!("{}: {}", f.case, f.detail));
    }
    out.count("states", 1);
}

const REREG: &[(i32, bool)] = &[(105, true), (105, false), (125, true), (125, false), (121, true), (111, false)];

/// the handler object shared by every registration of `xop` in the re-registration histories
pub fn xop_handler() -> std::sync::Arc<dyn Fn(expression_engine::Value, expression_engine::Value) -> expression_engine::Result<expression_engine::Value> + Send + Sync> {
    static H: std::sync::OnceLock<std::sync::Arc<dyn Fn(expression_engine::Value, expression_engine::Value) -> expression_engine::Result<expression_engine::Value> + Send + Sync>> = std::sync::OnceLock::new();
    H.get_or_init(|| std::sync::Arc::new(|a, _| Ok(a))).clone()
}

pub fn rereg_histories() -> Vec<Vec<(i32, bool)>> {
    let mut v = Vec::new();
    for a in REREG {
        v.push(vec![*a]);
        for b in REREG {
            if a != b {
                v.push(vec![*a, *b]);
            }
            for c in REREG {
                if a != b || b != c {
                    v.push(vec![*a, *b, *c]);
                }
            }
        }
    }
    v
}

fn run_rereg(h: &[(i32, bool)], xthread: bool, out: &mut WorkerOut) {
    use crate::gen::{relabel, trees_by_size, Kind};
    use crate::model::lex::InfixInfo;
    use expression_engine::{InfixOpAssociativity, InfixOpType};
    let kinds: Vec<Kind> = ["xop", "*", "+", "in"].iter().map(|o| Kind::Infix(o.to_string())).collect();
    let trees = trees_by_size(&kinds, 3);
    let rot = crate::gen::leaf_rotation();
    let mut ops = OpSet::builtin();
    for (step, (prec, left)) in h.iter().enumerate() {
        let (p, l) = (*prec, *left);
        // one handler object for every registration of the history (a clone of the same Arc)
        let hnd = xop_handler();
        let reg = move || expression_engine::register_infix_op("xop", p, InfixOpType::CALC, if l { InfixOpAssociativity::LEFT } else { InfixOpAssociativity::RIGHT }, hnd);
        if xthread && step > 0 {
            std::thread::spawn(reg).join().expect("registration thread");
        } else {
            reg();
        }
        ops.infix.insert("xop".into(), InfixInfo { prec: *prec, left: *left, setter: false });
        let mut tmp = WorkerOut::default();
        for t in trees[1].iter().chain(trees[2].iter()).chain(trees[3].iter()) {
            let mut n = 0;
            let t = relabel(t, &mut n, &rot);
            let text = parse::print(&t, &ops, Parens::Full);
            roundtrip(&text, &ops, "x", &mut tmp);
        }
        // the replayable case is the history; the expression goes into the detail
        let fails = std::mem::take(&mut tmp.fails);
        out.merge(tmp);
        for (k, (f, _)) in fails {
            out.fail(k, format!("reregister|{:?}{}", h, if xthread { " re-registrations by another thread" } else { "" }), format!("after registration {} of the history, {}: {}", step + 1, f.case, f.detail));
        }
    }
}

/// The tree itself plus mirrored variants: with full parenthesisation the parser accepts any
/// child under any operator, so swapping the children of every infix node yields the shapes
/// (lower precedence on the right, equal precedence on the "wrong" side) that minimal
/// printing never produces.
fn forced_shapes(t: &Ast) -> Vec<Ast> {
    fn mirror(t: &Ast) -> Ast {
        match t {
            Ast::Binary(op, l, r) => Ast::Binary(op.clone(), Box::new(mirror(r)), Box::new(mirror(l))),
            Ast::Unary(op, x) => Ast::Unary(op.clone(), Box::new(mirror(x))),
            Ast::Postfix(x, op) => Ast::Postfix(Box::new(mirror(x)), op.clone()),
            Ast::Ternary(a, b, c) => Ast::Ternary(Box::new(mirror(c)), Box::new(mirror(a)), Box::new(mirror(b))),
            Ast::Func(n, v) => Ast::Func(n.clone(), v.iter().map(mirror).collect()),
            Ast::List(v) => Ast::List(v.iter().map(mirror).collect()),
            Ast::Stmt(v) => Ast::Stmt(v.iter().map(mirror).collect()),
            Ast::Map(v) => Ast::Map(v.iter().map(|(k, x)| (mirror(x), mirror(k))).collect()),
            o => o.clone(),
        }
    }
    vec![t.clone(), mirror(t)]
}
