//! C08 — names and operators dispatch to the handler and binding last registered; a
//! registered infix operator parses with exactly its precedence and associativity.
//! (a) explicit search over registration histories, one FRESH PROCESS per history (the
//!     registries and the once-flag cannot be reset), probe battery after chosen steps;
//! (b) operator tables with adjacent / extreme precedences, one process per table.
//! Oracle: registry model (insert replaces; context function, then global, then error) +
//! the reference lexer / parser / evaluator instantiated with the same table.
use super::vals::show_value;
use crate::core::*;
use crate::engine::{conv, guarded, Res};
use crate::model::eval::{self, HFn, MBind, MCtx, World};
use crate::model::lex::InfixInfo;
use crate::model::parse;
use expression_engine::{parse_expression, Context, InfixOpAssociativity, InfixOpType, Value};
use rust_decimal::Decimal;
use std::sync::Arc;
use std::time::Duration;

pub struct C08;

#[derive(Clone, Debug, PartialEq)]
pub enum Op {
    Func(&'static str, &'static str),
    Prefix(&'static str, &'static str),
    Infix(&'static str, i32, bool, &'static str),
    Postfix(&'static str, &'static str),
    /// an infix operator of the assigning type (`x OP e` binds x to handler(x, e))
    Setter(&'static str, i32, bool, &'static str),
}

impl Op {
    fn label(&self) -> String {
        match self {
            Op::Func(n, t) => format!("register_function({},{})", n, t),
            Op::Prefix(n, t) => format!("register_prefix_op({},{})", n, t),
            Op::Infix(n, p, l, t) => format!("register_infix_op({},{},{},{})", n, p, if *l { "LEFT" } else { "RIGHT" }, t),
            Op::Postfix(n, t) => format!("register_postfix_op({},{})", n, t),
            Op::Setter(n, p, l, t) => format!("register_infix_op({},{},SETTER,{},{})", n, p, if *l { "LEFT" } else { "RIGHT" }, t),
        }
    }
    fn kind(&self) -> String {
        match self {
            Op::Func(n, _) => format!("fn:{}", n),
            Op::Prefix(n, _) => format!("prefix:{}", n),
            Op::Infix(n, p, l, _) => format!("infix:{}@{}{}", n, p, if *l { "L" } else { "R" }),
            Op::Postfix(n, _) => format!("postfix:{}", n),
            Op::Setter(n, p, l, _) => format!("setter:{}@{}{}", n, p, if *l { "L" } else { "R" }),
        }
    }
}

pub fn op_alphabet() -> Vec<Op> {
    vec![
        Op::Func("nf", "A"),
        Op::Func("nf", "B"),
        Op::Func("min", "A"),
        Op::Func("min", "B"),
        Op::Prefix("npre", "A"),
        Op::Prefix("-", "A"),
        Op::Prefix("-", "B"),
        Op::Prefix("+++", "A"),
        // a prefix operator under the symbol of a built-in postfix operator: both stay
        Op::Prefix("++", "A"),
        Op::Infix("hi", 111, true, "A"),
        Op::Infix("hi", 111, false, "B"),
        Op::Infix("hi", 125, true, "C"),
        // the same handler object as the first `hi` registration, other precedence and associativity
        Op::Infix("hi", 125, false, "A"),
        // the same handler object and precedence as the first `hi`, only the associativity differs;
        // and only the operator type differs (calculating -> assigning)
        Op::Infix("hi", 111, false, "A"),
        Op::Setter("hi", 111, true, "A"),
        Op::Infix("+", 110, true, "A"),
        Op::Infix("+", 130, true, "B"),
        Op::Infix("/", 120, false, "A"),
        Op::Infix("~=", 105, true, "A"),
        // a symbolic operator that continues with a character no built-in operator contains, and a
        // word operator whose name is short in characters but long in bytes
        Op::Infix("=~", 105, true, "A"),
        // a symbolic operator that continues with a letter
        Op::Infix("/i", 120, true, "A"),
        Op::Infix("\u{4e0d}\u{5305}\u{542b}\u{4e8e}", 105, true, "A"),
        Op::Postfix("npo", "A"),
        Op::Postfix("++", "A"),
    ]
}

fn tag1(name: &'static str, tag: &'static str) -> impl Fn(Vec<Value>) -> Value + Send + Sync + Clone {
    move |args: Vec<Value>| Value::String(format!("{}:{}({})", name, tag, args.iter().map(show_value).collect::<Vec<_>>().join(",")))
}

type H1 = Arc<dyn Fn(Vec<Value>) -> expression_engine::Result<Value> + Send + Sync>;
type H2 = Arc<dyn Fn(Value, Value) -> expression_engine::Result<Value> + Send + Sync>;
type HU = Arc<dyn Fn(Value) -> expression_engine::Result<Value> + Send + Sync>;

/// One handler OBJECT per (kind, name, tag): registering the same (name, tag) again passes a
/// clone of the same Arc, as an application that keeps its handlers in statics would
/// ("registered twice", "registered again with another precedence").
fn handlers() -> &'static std::sync::Mutex<(std::collections::HashMap<String, H1>, std::collections::HashMap<String, H2>, std::collections::HashMap<String, HU>)> {
    static H: std::sync::OnceLock<std::sync::Mutex<(std::collections::HashMap<String, H1>, std::collections::HashMap<String, H2>, std::collections::HashMap<String, HU>)>> = std::sync::OnceLock::new();
    H.get_or_init(Default::default)
}

fn apply_engine(op: &Op) {
    match op {
        Op::Func(n, t) => {
            let f = tag1(n, t);
            let h = handlers().lock().unwrap().0.entry(format!("fn:{}:{}", n, t)).or_insert_with(|| Arc::new(move |a| Ok(f(a)))).clone();
            expression_engine::register_function(n, h)
        }
        Op::Prefix(n, t) => {
            let f = tag1(n, t);
            let h = handlers().lock().unwrap().2.entry(format!("pre:{}:{}", n, t)).or_insert_with(|| Arc::new(move |a| Ok(f(vec![a])))).clone();
            expression_engine::register_prefix_op(n, h)
        }
        Op::Postfix(n, t) => {
            let f = tag1(n, t);
            let h = handlers().lock().unwrap().2.entry(format!("post:{}:{}", n, t)).or_insert_with(|| Arc::new(move |a| Ok(f(vec![a])))).clone();
            expression_engine::register_postfix_op(n, h)
        }
        Op::Infix(n, p, l, t) => {
            let f = tag1(n, t);
            let h = handlers().lock().unwrap().1.entry(format!("in:{}:{}", n, t)).or_insert_with(|| Arc::new(move |a, b| Ok(f(vec![a, b])))).clone();
            expression_engine::register_infix_op(n, *p, InfixOpType::CALC, if *l { InfixOpAssociativity::LEFT } else { InfixOpAssociativity::RIGHT }, h)
        }
        Op::Setter(n, p, l, t) => {
            let f = tag1(n, t);
            let h = handlers().lock().unwrap().1.entry(format!("in:{}:{}", n, t)).or_insert_with(|| Arc::new(move |a, b| Ok(f(vec![a, b])))).clone();
            expression_engine::register_infix_op(n, *p, InfixOpType::SETTER, if *l { InfixOpAssociativity::LEFT } else { InfixOpAssociativity::RIGHT }, h)
        }
    }
}

/// the same registration made by another thread (spawned and joined): whatever the engine
/// keeps per thread must not decide what a later evaluation on THIS thread sees
fn apply_engine_on_other_thread(op: &Op) {
    let op = op.clone();
    std::thread::spawn(move || apply_engine(&op)).join().expect("registration thread");
}

fn apply_model(op: &Op, w: &mut World) {
    match op {
        Op::Func(n, t) => {
            let f = tag1(n, t);
            let h: HFn = Arc::new(move |a| Ok(f(a)));
            w.functions.insert(n.to_string(), h);
        }
        Op::Prefix(n, t) => {
            let f = tag1(n, t);
            let h: HFn = Arc::new(move |a| Ok(f(a)));
            w.ops.prefix.insert(n.to_string());
            w.prefix.insert(n.to_string(), h);
        }
        Op::Postfix(n, t) => {
            let f = tag1(n, t);
            let h: HFn = Arc::new(move |a| Ok(f(a)));
            w.ops.postfix.insert(n.to_string());
            w.postfix.insert(n.to_string(), h);
        }
        Op::Infix(n, p, l, t) => {
            let f = tag1(n, t);
            let h: HFn = Arc::new(move |a| Ok(f(a)));
            w.ops.infix.insert(n.to_string(), InfixInfo { prec: *p, left: *l, setter: false });
            w.infix.insert(n.to_string(), h);
        }
        Op::Setter(n, p, l, t) => {
            let f = tag1(n, t);
            let h: HFn = Arc::new(move |a| Ok(f(a)));
            w.ops.infix.insert(n.to_string(), InfixInfo { prec: *p, left: *l, setter: true });
            w.infix.insert(n.to_string(), h);
        }
    }
}

/// probe expressions x context kinds
const PROBES: &[&str] = &[
    "nf()",
    "nf(1, 2)",
    "nf",
    "min(3, 2)",
    "npre 1",
    "- 1",
    "1 - - 1",
    "+++ 1",
    "++ 1",
    "++ 1 ++",
    "++ + 1",
    "1 hi 2",
    "1 + 2 hi 3",
    "1 hi 2 + 3",
    "1 hi 2 hi 3",
    "1 * 2 hi 3 * 4",
    "8 - 2 hi 1",
    "1 + 2 + 3",
    "1 + 2 * 3",
    "1 + 2 - 3",
    "8 / 4 / 2",
    "1 < 2 + 3",
    "1 npo",
    "1 ++",
    "hi",
    "x = 1 ; x hi 2",
    "[nf(), min(1), 2 hi 3]",
    "1 not hi 2",
    "1 ~= 2",
    "1 ~= 2 + 3 ~= 4",
    // a name bound to a context function is assigned the very value that function returns
    // with no arguments: afterwards it is a variable, and a call goes to the global function
    "nf = 'ctx-nf(0)' ; nf(1)",
    // the callee is re-bound while its own arguments are evaluated: the call uses the binding
    // that exists when the arguments are done
    "nf(nf = 1)",
    "7 /i 2",
    "1 =~ 2",
    "x = 1 ; x =~ 2",
    "1 \u{4e0d}\u{5305}\u{542b}\u{4e8e} 2",
    "1 hi (2 hi 3)",
    "(1 hi 2) hi 3",
    "(1 + 2) hi 3",
    "1 * (2 hi 3)",
    "8 / (4 / 2)",
    "(8 / 4) / 2",
];

const CONTEXTS: &[&str] = &["empty", "nf-function", "nf-variable", "min-function", "nf-failing-function"];

fn engine_ctx(kind: &str) -> Context {
    let mut c = Context::new();
    match kind {
        "nf-function" => { let _ = c.set_func("nf", Arc::new(|a| Ok(Value::String(format!("ctx-nf({})", a.len()))))); }
        "nf-variable" => { let _ = c.set_variable("nf", Value::Number(Decimal::from(5))); }
        "min-function" => { let _ = c.set_func("min", Arc::new(|a| Ok(Value::String(format!("ctx-min({})", a.len()))))); }
        // a context function that fails: the call fails, the global function of that name is not a fall-back
        "nf-failing-function" => { let _ = c.set_func("nf", Arc::new(|_| Value::None.bool().map(Value::from))); }
        _ => {}
    }
    c
}

fn model_ctx(kind: &str) -> MCtx {
    let mut c = MCtx::new();
    match kind {
        "nf-function" => {
            let h: HFn = Arc::new(|a| Ok(Value::String(format!("ctx-nf({})", a.len()))));
            c.insert("nf".into(), MBind::Func(h));
        }
        "nf-variable" => {
            c.insert("nf".into(), MBind::Var(Value::Number(Decimal::from(5))));
        }
        "min-function" => {
            let h: HFn = Arc::new(|a| Ok(Value::String(format!("ctx-min({})", a.len()))));
            c.insert("min".into(), MBind::Func(h));
        }
        "nf-failing-function" => {
            let h: HFn = Arc::new(|_| Err(eval::EErr::Handler));
            c.insert("nf".into(), MBind::Func(h));
        }
        _ => {}
    }
    c
}

/// run the battery; returns the number of probes that disagreed (each reported)
fn probe(world: &World, stage: &str, hist: &str, after: &str, out: &mut WorkerOut) -> String {
    let mut fingerprint = String::new();
    for p in PROBES {
        for ck in CONTEXTS {
            if *ck != "empty" && !(p.contains("nf") || p.contains("min")) {
                continue;
            }
            out.evals += 1;
            out.count("validated", 1);
            let case = format!("{}|{}", stage, hist);
            let m_ast = parse::parse(p, &world.ops);
            let e = guarded(|| {
                let t = parse_expression(p).map_err(|e| format!("parse: {:?}", e))?;
                let ast = conv(&t);
                // rendering must follow the current table too
                let rendered = t.expr();
                let again = parse_expression(&rendered).map(|t2| conv(&t2) == ast).unwrap_or(false);
                let v = t.exec(&mut engine_ctx(ck)).map_err(|e| format!("{:?}", e));
                // the one-call entry point must agree with parse + exec (same text, equal context)
                let v2 = expression_engine::execute(p, engine_ctx(ck)).map_err(|e| format!("{:?}", e));
                let v = match (&v, &v2) {
                    (Ok(a), Ok(b)) if a == b => v,
                    (Err(_), Err(_)) => v,
                    _ => return Err(format!("execute-differs-from-parse-exec: exec {:?} execute {:?}", v.as_ref().map(show_value), v2.as_ref().map(show_value))),
                };
                Ok((ast, again, v))
            });
            let key_tail = format!("{}:probe={}", after, p.split_whitespace().collect::<Vec<_>>().join("_"));
            match (&m_ast, &e) {
                (_, Res::Panic(m)) => {
                    out.fail(format!("panic:{}", key_tail), case, m.clone());
                    fingerprint.push('!');
                }
                (Err(_), Res::Err(_)) => {
                    out.outcomes.insert("both-reject".into());
                    fingerprint.push('x');
                }
                (Err(me), Res::Ok((ast, _, _))) => {
                    out.fail(format!("parse:accepted:{}", key_tail), case, format!("probe {:?} ({}): model rejects ({:?}), engine parses {:?}", p, ck, me, ast));
                    fingerprint.push('?');
                }
                (Ok(_), Res::Err(err)) if err.starts_with("execute-differs-from-parse-exec") => {
                    out.fail(format!("dispatch:execute-entry-point:{}:{}", ck, key_tail), case, format!("probe {:?} ({}): {}", p, ck, err));
                    fingerprint.push('?');
                }
                (Ok(ma), Res::Err(err)) => {
                    out.fail(format!("parse:rejected:{}", key_tail), case, format!("probe {:?} ({}): model parses {:?}, engine: {}", p, ck, ma, err));
                    fingerprint.push('?');
                }
                (Ok(ma), Res::Ok((ast, again, v))) => {
                    if ma != ast {
                        out.fail(format!("grouping-or-tokens:{}", key_tail), case.clone(), format!("probe {:?} ({}): expected {:?} got {:?}", p, ck, ma, ast));
                    }
                    if !again {
                        out.fail(format!("render:{}", key_tail), case.clone(), format!("probe {:?}: expr() of the parsed tree does not parse back to it under the current table", p));
                    }
                    let mv = eval::eval(ma, &mut model_ctx(ck), world);
                    let same = match (&mv, v) {
                        (Ok(a), Ok(b)) => a == b,
                        (Err(_), Err(_)) => true,
                        _ => false,
                    };
                    if !same {
                        out.fail(format!("dispatch:{}:{}", ck, key_tail), case, format!("probe {:?} ({}): expected {:?} got {:?}", p, ck, mv.as_ref().map(show_value), v));
                    }
                    out.outcomes.insert(match &mv {
                        Ok(Value::String(s)) if s.contains(':') => "tagged-handler".into(),
                        Ok(_) => "builtin-result".into(),
                        Err(_) => "eval-error".into(),
                    });
                    fingerprint.push_str(&format!("{:?};", v.as_ref().map(show_value)));
                }
            }
        }
    }
    fingerprint
}

/// history = (ops, probe mask over positions 0..=len; the final position is always probed)
pub struct History {
    pub ops: Vec<Op>,
    pub mask: u32,
}

impl History {
    fn text(&self) -> String {
        let mut parts = Vec::new();
        for i in 0..=self.ops.len() {
            if self.mask & (1 << i) != 0 || i == self.ops.len() {
                parts.push("PROBE".to_string());
            }
            if i < self.ops.len() {
                parts.push(self.ops[i].label());
            }
        }
        parts.join(" ; ")
    }
}

/// The history space, addressed by index without materialising it: for every length n in
/// 0..=long_len, every sequence of n operations, every probe mask of the tier.
pub struct Histories {
    n_ops: u64,
    full_len: u32,
    long_len: u32,
}

impl Histories {
    pub fn new(tier: Tier) -> Histories {
        Histories { n_ops: op_alphabet().len() as u64, full_len: tier.pick(2, 3), long_len: tier.pick(3, 4) }
    }
    /// the histories that are also run with every registration made on another thread
    pub fn cross_thread(tier: Tier) -> Histories {
        Histories { n_ops: op_alphabet().len() as u64, full_len: tier.pick(2, 2), long_len: tier.pick(2, 3) }
    }
    fn masks(&self, n: u32) -> Vec<u32> {
        if n <= self.full_len {
            (0..(1u32 << n)).collect()
        } else {
            // longest histories: probe everywhere / only before the first registration and at
            // the end / only at the end / everywhere but before the first registration
            vec![(1u32 << n) - 1, 1, 0, (1u32 << n) - 2]
        }
    }
    fn block(&self, n: u32) -> u64 {
        self.n_ops.pow(n) * self.masks(n).len() as u64
    }
    pub fn len(&self) -> u64 {
        (0..=self.long_len).map(|n| self.block(n)).sum()
    }
    pub fn get(&self, mut i: u64) -> History {
        let a = op_alphabet();
        let mut n = 0u32;
        while i >= self.block(n) {
            i -= self.block(n);
            n += 1;
        }
        let masks = self.masks(n);
        let mask = masks[(i % masks.len() as u64) as usize];
        let mut seq = i / masks.len() as u64;
        let mut ops = Vec::new();
        for _ in 0..n {
            ops.push(a[(seq % self.n_ops) as usize].clone());
            seq /= self.n_ops;
        }
        ops.reverse();
        History { ops, mask }
    }
}

// ---------------------------------------------------------------------------
// (b) operator tables

#[derive(Clone, Debug)]
pub struct Table {
    pub ops: Vec<(&'static str, i32, bool)>,
}

fn builtin_assoc_at(p: i32) -> Option<bool> {
    match p {
        20 => Some(false),
        40 | 50 | 60 | 70 | 80 | 90 | 100 | 110 | 120 | 200 => Some(true),
        _ => None,
    }
}

pub fn tables() -> Vec<Table> {
    let levels = [20, 40, 50, 60, 70, 80, 90, 100, 110, 120, 200];
    let mut ps: Vec<i32> = vec![1, 2, 3, 999_999_999, 1_000_000_000];
    for b in levels {
        ps.extend([b - 1, b, b + 1]);
    }
    ps.sort();
    ps.dedup();
    let mut v = Vec::new();
    let ok = |p: i32, left: bool| builtin_assoc_at(p).map(|a| a == left).unwrap_or(true);
    for p in &ps {
        for left in [true, false] {
            if ok(*p, left) {
                v.push(Table { ops: vec![("xa", *p, left)] });
            }
        }
    }
    for p in &ps {
        if *p == 1_000_000_000 {
            continue;
        }
        for l1 in [true, false] {
            for l2 in [true, false] {
                if ok(*p, l1) && ok(*p + 1, l2) {
                    v.push(Table { ops: vec![("xa", *p, l1), ("xb", *p + 1, l2)] });
                }
            }
        }
        // two new operators on the same level must share associativity to be defined
        for l in [true, false] {
            if ok(*p, l) {
                v.push(Table { ops: vec![("xa", *p, l), ("xb", *p, l)] });
            }
        }
    }
    v
}

const TABLE_BUILTINS: &[&str] = &["=", "||", "&&", "<", "|", "^", "&", "<<", "+", "*", "in"];

fn run_table(t: &Table, out: &mut WorkerOut) {
    let mut world = World::builtin();
    for (name, p, left) in &t.ops {
        let op = Op::Infix(name, *p, *left, "T");
        apply_engine(&op);
        apply_model(&op, &mut world);
    }
    let mut ops: Vec<&str> = t.ops.iter().map(|o| o.0).collect();
    ops.extend(TABLE_BUILTINS);
    let news: Vec<&str> = t.ops.iter().map(|o| o.0).collect();
    let case = format!("tables|{:?}", t.ops);
    let mut check = |text: String, key: String, out: &mut WorkerOut| {
        out.evals += 1;
        out.count("validated", 1);
        let want = parse::parse(&text, &world.ops);
        let got = guarded(|| parse_expression(&text).map(|a| conv(&a)).map_err(|e| format!("{:?}", e)));
        match (want, got) {
            (Ok(w), Res::Ok(g)) => {
                if w == g {
                    out.outcomes.insert("table-same-ast".into());
                    // and the rendering of that tree means the same under the same table
                    let back = guarded(|| {
                        let t = parse_expression(&text).map_err(|e| format!("{:?}", e))?;
                        let r = t.expr();
                        parse_expression(&r).map(|a| (conv(&a), r.clone())).map_err(|e| format!("{:?} for {:?}", e, r))
                    });
                    match back {
                        Res::Ok((a, _)) if a == w => {}
                        other => out.fail(format!("table-roundtrip:{}", key), case.clone(), format!("{:?}: expr() does not parse back to the tree: {:?}", text, other)),
                    }
                } else {
                    out.fail(format!("table-grouping:{}", key), case.clone(), format!("{:?}: expected {:?} got {:?}", text, w, g));
                }
            }
            (w, g) => out.fail(format!("table-parse:{}", key), case.clone(), format!("{:?}: model {:?} engine {:?}", text, w.is_ok(), g)),
        }
    };
    let rel = |a: &str, w: &World| -> String {
        let i = &w.ops.infix[a];
        format!("{}{}", i.prec, if i.left { "L" } else { "R" })
    };
    // relative to the conditional operator too: a chain of new operators (and one built-in) is
    // the whole condition, and belongs to the arm it stands in
    for x in &news {
        let k = rel(x, &world);
        check(format!("a {} b ? c : d", x), format!("{}~?", k), out);
        check(format!("a {} b {} c ? d : e", x, x), format!("{}~{}~?", k, k), out);
        check(format!("a ? b {} c : d {} e", x, x), format!("?~{}", k), out);
        check(format!("a ? b : c {} d {} e ? f : g", x, x), format!("?~{}~{}~?", k, k), out);
        for y in &ops {
            let key = format!("{}~{}~?", k, rel(y, &world));
            check(format!("a {} b {} c ? d : e", x, y), key.clone(), out);
            check(format!("a {} b {} c ? d : e", y, x), format!("{}~{}~?", rel(y, &world), k), out);
            check(format!("a {} b {} c {} d ? e : f", x, y, x), format!("{}~{}", k, key), out);
        }
    }
    for x in &ops {
        for y in &ops {
            if !news.contains(x) && !news.contains(y) {
                continue;
            }
            let key = format!("{}~{}", rel(x, &world), rel(y, &world));
            check(format!("a {} b {} c", x, y), key.clone(), out);
            for z in &ops {
                check(format!("a {} b {} c {} d", x, y, z), format!("{}~{}", key, rel(z, &world)), out);
            }
        }
    }
}

impl Prop for C08 {
    fn id(&self) -> &'static str {
        "C08"
    }
    fn plan(&self, tier: Tier) -> Plan {
        let nh = Histories::new(tier).len();
        let nt = tables().len() as u64;
        Plan {
            stages: vec![
                Stage { name: "histories".into(), len: nh, chunk: 1, timeout: Duration::from_secs(60), what: "registration history with probe batteries, one fresh process each".into() },
                Stage { name: "tables".into(), len: nt, chunk: 1, timeout: Duration::from_secs(120), what: "operator table with one or two new infix operators, one process each".into() },
                Stage { name: "histories-other-thread".into(), len: Histories::cross_thread(tier).len(), chunk: 1, timeout: Duration::from_secs(60), what: "registration histories in which every register_* call is made by another (spawned and joined) thread while all probes run on the main thread, one fresh process each".into() },
            ],
            rule: format!(
                "(a) histories over {} registration operations (new and built-in function names with two tags, new word / built-in / new symbolic prefix operators, an infix word operator at 111 LEFT, 111 RIGHT and 125 LEFT, overrides of '+' and '/' with other precedence / associativity, postfix operators): every history of <= {} operations with every placement of probe batteries (before first use, between registrations, after), and every history of {} operations with 4 placements; each in a fresh process. \
                 A probe battery = {} expressions x up to {} contexts (empty, name bound as context function, as variable, built-in name bound as context function): AST, rendering round trip and value must equal the registry model + reference parser / evaluator instantiated with the same table. \
                 (b) {} operator tables: one new infix operator at p in {{b-1, b, b+1 : b a built-in level}} + {{1, 2, 3, 10^9-1, 10^9}}, both associativities, and pairs at (p, p+1) / (p, p); every expression `a X b Y c` and `a X b Y c Z d` with a new operator in it over the new operators and one built-in per level, and chains of them as the condition and in the arms of a conditional. distinct = distinct history / table",
                op_alphabet().len(),
                tier.pick(2, 3),
                tier.pick(3, 4),
                PROBES.len(),
                CONTEXTS.len(),
                nt
            ),
            assumptions: vec![
                "operator pairs with equal precedence and opposite associativity are excluded: the property does not define them".into(),
                "registered symbolic operators are prefix-closed".into(),
            ],
            exhaustive: true,
            bound: format!("history length <= {}; two new operators per table", tier.pick(3, 4)),
            states_note: "states = distinct registry fingerprints reached (probe results); transitions = registration steps executed".into(),
        }
    }
    fn run(&self, tier: Tier, stage: usize, a: u64, b: u64, out: &mut WorkerOut) {
        if stage == 0 || stage == 2 {
            let hs = if stage == 0 { Histories::new(tier) } else { Histories::cross_thread(tier) };
            let stage_name = if stage == 0 { "histories" } else { "histories-other-thread" };
            for i in a..b {
                out.at(i);
                let h = &hs.get(i);
                let text = h.text();
                let mut world = World::builtin();
                let mut after = "start".to_string();
                let mut fp = String::new();
                for k in 0..=h.ops.len() {
                    if h.mask & (1 << k) != 0 || k == h.ops.len() {
                        fp = probe(&world, stage_name, &text, &after, out);
                    }
                    if k < h.ops.len() {
                        if stage == 2 {
                            apply_engine_on_other_thread(&h.ops[k]);
                        } else {
                            apply_engine(&h.ops[k]);
                        }
                        apply_model(&h.ops[k], &mut world);
                        after = h.ops[k].kind();
                        out.count("transitions", 1);
                    }
                }
                // the hook snapshot must list exactly the model's names
                let snap = expression_engine::verif_hooks::snapshot();
                // (name, precedence, assigning?, left-associative?) of every infix operator, and the
                // names in the other three registries
                let mut names: Vec<(String, i32, bool, bool)> = snap.infix.iter().map(|x| (x.0.clone(), x.1, x.2, x.3)).collect();
                let mut want: Vec<(String, i32, bool, bool)> = world.ops.infix.iter().map(|(k, i)| (k.clone(), i.prec, i.setter, i.left)).collect();
                names.sort();
                want.sort();
                if names != want {
                    let only_e: Vec<_> = names.iter().filter(|n| !want.contains(n)).collect();
                    let only_m: Vec<_> = want.iter().filter(|n| !names.contains(n)).collect();
                    out.fail("registry:infix-entries", format!("{}|{}", stage_name, text), format!("only in the engine {:?}, only in the model {:?}", only_e, only_m));
                }
                for (what, got, want) in [
                    ("prefix", snap.prefix.iter().map(|x| x.0.clone()).collect::<std::collections::BTreeSet<_>>(), world.ops.prefix.iter().cloned().collect::<std::collections::BTreeSet<_>>()),
                    ("postfix", snap.postfix.iter().map(|x| x.0.clone()).collect(), world.ops.postfix.iter().cloned().collect()),
                ] {
                    if got != want {
                        out.fail(format!("registry:{}-names", what), format!("{}|{}", stage_name, text), format!("engine {:?} model {:?}", got, want));
                    }
                }
                out.nontrivial.insert(hash64(&fp));
                out.count("states", 1);
                out.sample(text);
            }
        } else {
            let ts = tables();
            for i in a..b {
            out.at(i);
                run_table(&ts[i as usize], out);
                out.nontrivial.insert(hash64(&format!("{:?}", ts[i as usize].ops)));
                out.count("states", 1);
                out.count("transitions", ts[i as usize].ops.len() as u64);
                out.sample(format!("table {:?}", ts[i as usize].ops));
            }
        }
    }
    fn case_text(&self, tier: Tier, stage: usize, i: u64) -> String {
        if stage == 0 {
            Histories::new(tier).get(i).text()
        } else if stage == 2 {
            Histories::cross_thread(tier).get(i).text()
        } else {
            format!("{:?}", tables()[i as usize].ops)
        }
    }
    fn min_outcomes(&self) -> usize {
        3
    }
}
