//! C13 — concurrent use is safe, including first use and concurrent registration.
//! Stateless, preemption-bounded exploration (CHESS / iterative context bounding) of the
//! REAL code: every schedule runs in a fresh child process (first use cannot be reset) under
//! the baton scheduler of `sched.rs`; the explorer enumerates every choice sequence with at
//! most k preemptions; each execution's per-thread results must equal those of some
//! sequential order of the same calls (brute-force linearizability), with no panic and no
//! deadlock. Also serves C16's concurrent part (workload W7).
use crate::core::*;
use crate::engine::{conv, guarded, Res};
use crate::sched::Sched;
use expression_engine::{parse_expression, Context, InfixOpAssociativity, InfixOpType, Value};
use serde_json::{json, Value as J};
use std::collections::{BTreeMap, BTreeSet};
use std::io::Read;
use std::process::{Command, Stdio};
use std::sync::{Arc, Mutex};
use std::time::{Duration, Instant};

pub struct C13;

static CLOCK: std::sync::atomic::AtomicU64 = std::sync::atomic::AtomicU64::new(0);

#[derive(Clone, Debug)]
pub enum Call {
    Exec(&'static str),
    Parse(&'static str),
    RegFn(&'static str, &'static str),
    RegInfix(&'static str, i32, bool, &'static str),
    RegPrefix(&'static str, &'static str),
    RegPostfix(&'static str, &'static str),
    /// describe() of the parsed text (C18's concurrent part)
    Describe(&'static str),
    SetBinaryDescriptor(&'static str, &'static str),
    SetReferenceDescriptor(&'static str, &'static str),
    /// parse, render with expr(), parse the rendering again: "same" or what came out (C12's concurrent part)
    RoundTrip(&'static str),
    /// the one-call entry point execute() with a fresh context
    Execute(&'static str),
    /// register a function whose handler itself calls execute() (on a context of its own)
    RegReentrantFn(&'static str),
}

pub struct Workload {
    pub name: &'static str,
    pub about: &'static str,
    /// calls made by the main thread before the threads start (warm-up / pre-registration)
    pub pre: Vec<Call>,
    pub threads: Vec<Vec<Call>>,
    /// calls made by the main thread after all threads have finished (their results are part
    /// of the observation: whatever the interleaving, the final state must be a sequential one)
    pub post: Vec<Call>,
    /// registries (0 prefix, 1 infix, 2 postfix, 3 functions) written after initialisation
    pub write_set: Vec<u32>,
}

pub fn workloads() -> Vec<Workload> {
    use Call::*;
    vec![
        Workload {
            name: "W1-first-use-x2",
            about: "two threads make the process's first engine call at once",
            pre: vec![],
            threads: vec![vec![Exec("1 + 2 * 3")], vec![Exec("min(4, 5)")]],
            post: vec![],
            write_set: vec![],
        },
        Workload {
            name: "W2-first-use-vs-override",
            about: "first call of one thread against register_function of a built-in name in another: the override must not be lost to a late lazy initialisation",
            pre: vec![],
            // (the second evaluation runs after a first-use initialisation that was still in
            // flight during the first one has certainly finished)
            threads: vec![vec![Exec("max(1, 2) + 1")], vec![RegFn("min", "X"), Exec("min(1, 2)"), Exec("min(1, 2)")]],
            post: vec![Exec("min(1, 2)")],
            write_set: vec![3],
        },
        Workload {
            name: "W3-first-use-vs-new-infix",
            about: "first evaluation, registration of a new infix word operator, and an evaluation using that word, all at once",
            pre: vec![],
            threads: vec![vec![Exec("1 + 2 * 3")], vec![RegInfix("hi", 111, true, "H")], vec![Exec("1 hi 2")]],
            post: vec![Exec("1 hi 2")],
            write_set: vec![1],
        },
        Workload {
            name: "W4-concurrent-reregistration",
            about: "after warm-up: two registrations of the same function name against two evaluations of it",
            pre: vec![Exec("1 + 1")],
            threads: vec![vec![RegFn("f", "h1")], vec![RegFn("f", "h2")], vec![Exec("f()"), Exec("f()")]],
            post: vec![Exec("f()")],
            write_set: vec![3],
        },
        Workload {
            name: "W5-prefix-postfix-registration",
            about: "after warm-up: registration of a prefix and a postfix operator against parses of text using them",
            pre: vec![Exec("1 + 1")],
            threads: vec![vec![RegPrefix("npre", "P"), RegPostfix("npo", "Q")], vec![Exec("npre 1 npo"), Exec("npre 1 npo")]],
            post: vec![Exec("npre 1 npo")],
            write_set: vec![0, 2],
        },
        Workload {
            name: "W5a-prefix-registration",
            about: "after warm-up: registration of one prefix operator against two evaluations using it (a single registration is atomic for a single-occurrence expression)",
            pre: vec![Exec("1 + 1")],
            threads: vec![vec![RegPrefix("npre", "P")], vec![Exec("npre 1"), Exec("npre 1")]],
            post: vec![Exec("npre 1")],
            write_set: vec![0],
        },
        Workload {
            name: "W5b-postfix-registration",
            about: "after warm-up: registration of one postfix operator against two evaluations using it",
            pre: vec![Exec("1 + 1")],
            threads: vec![vec![RegPostfix("npo", "Q")], vec![Exec("1 npo"), Exec("1 npo")]],
            post: vec![Exec("1 npo")],
            write_set: vec![2],
        },
        Workload {
            name: "W6-first-use-x3",
            about: "three first calls at once",
            pre: vec![],
            threads: vec![vec![Exec("1 + 2")], vec![Exec("max(1, 2)")], vec![Parse("a ? - b : c ++")]],
            post: vec![],
            write_set: vec![],
        },
        Workload {
            name: "W7-isolated-contexts",
            about: "(C16) two evaluations of assigning programs with equal variable names on separate contexts",
            pre: vec![],
            threads: vec![vec![Exec("x = 1 ; x += 1 ; x"), Exec("x")], vec![Exec("x = 10 ; x *= 2 ; x"), Exec("x")]],
            post: vec![],
            write_set: vec![],
        },
        Workload {
            name: "W8-reregister-existing-infix",
            about: "after warm-up and a first registration: re-registration of an infix operator against an evaluation using it (must see the old or the new operator, never neither)",
            pre: vec![Exec("1 + 1"), RegInfix("pick", 105, true, "old")],
            threads: vec![vec![RegInfix("pick", 105, true, "new")], vec![Exec("10 pick 20"), Exec("10 pick 20")]],
            post: vec![Exec("10 pick 20")],
            write_set: vec![1],
        },
        Workload {
            name: "W10-racing-tokenisation-vs-registration",
            about: "after warm-up: an evaluation tokenises a word while another thread registers it as an infix operator and then uses it itself (whatever the first thread saw, the registrar's own later evaluation must see the operator)",
            pre: vec![Exec("1 + 1")],
            threads: vec![vec![Exec("10 pk 20")], vec![RegInfix("pk", 105, true, "K"), Exec("10 pk 20"), Exec("10 pk 20")]],
            post: vec![Exec("10 pk 20")],
            write_set: vec![1],
        },
        Workload {
            name: "W11-two-registrations-after-three",
            about: "after warm-up and three earlier function registrations: two threads each register a function; afterwards both must be callable (no registration may be lost, whatever the table size)",
            pre: vec![Exec("1 + 1"), RegFn("fa", "a"), RegFn("fb", "b"), RegFn("fc", "c")],
            threads: vec![vec![RegFn("fd", "d")], vec![RegFn("fe", "e")]],
            post: vec![Exec("[fa(), fd(), fe()]")],
            write_set: vec![3],
        },
        Workload {
            name: "W12-two-infix-registrations",
            about: "after warm-up: two threads register different infix operators (one re-registers a built-in); afterwards both registrations must be in effect",
            pre: vec![Exec("1 + 1")],
            threads: vec![vec![RegInfix("qa", 105, true, "A")], vec![RegInfix("-", 110, true, "M")]],
            post: vec![Exec("1 qa 2"), Exec("3 - 1")],
            write_set: vec![1],
        },
        Workload {
            name: "W13-reregistration-seen-by-a-thread-that-used-the-operator",
            about: "a thread evaluates with an infix operator, another thread re-registers it with the other associativity; the first thread's evaluation that starts after the registration returned must group the new way",
            pre: vec![Exec("1 + 1"), RegInfix("xo", 105, true, "O")],
            // (same handler tag: only the grouping changes, so one evaluation cannot show a mixture)
            threads: vec![vec![Exec("9 xo 3 xo 1"), Exec("9 xo 3 xo 1")], vec![RegInfix("xo", 105, false, "O")]],
            post: vec![Exec("9 xo 3 xo 1")],
            write_set: vec![1],
        },
        Workload {
            name: "W15-reregistration-changes-grouping-and-handler",
            about: "one re-registration that changes associativity AND handler against two evaluations: an evaluation must see the old operator or the new one, not the old grouping with the new handler (known finding: parse and exec read the registry at different times)",
            pre: vec![Exec("1 + 1"), RegInfix("xo", 105, true, "O")],
            threads: vec![vec![Exec("9 xo 3 xo 1"), Exec("9 xo 3 xo 1")], vec![RegInfix("xo", 105, false, "N")]],
            post: vec![Exec("9 xo 3 xo 1")],
            write_set: vec![1],
        },
        Workload {
            name: "W16-reregistration-changes-precedence-and-associativity",
            about: "a re-registration that changes precedence AND associativity (same handler) next to a built-in operator on the old level: every evaluation groups by the old pair or by the new pair, never by a mixture of the two",
            pre: vec![Exec("1 + 1"), RegInfix("xq", 110, false, "Q")],
            threads: vec![vec![Exec("9 xq 3 + 1"), Exec("9 xq 3 + 1")], vec![RegInfix("xq", 50, true, "Q")]],
            post: vec![Exec("9 xq 3 + 1")],
            write_set: vec![1],
        },
        Workload {
            name: "W14-reregister-existing-prefix-operators",
            about: "re-registration of a user prefix operator and of the built-in `!` against evaluations using them: each evaluation sees the old or the new handler, never none",
            pre: vec![Exec("1 + 1"), RegPrefix("npre", "old")],
            threads: vec![vec![RegPrefix("npre", "new"), RegPrefix("!", "bang")], vec![Exec("npre 1"), Exec("! true")]],
            post: vec![Exec("[npre 1, ! true]")],
            write_set: vec![0],
        },
        Workload {
            name: "W18-registrations-into-different-registries",
            about: "two threads register into different registries at the same time (an infix operator, a postfix operator; then a prefix operator, a function): all four are in effect afterwards, nobody waits for the other (registrations that look into each other's tables in opposite order would)",
            pre: vec![Exec("1 + 1")],
            threads: vec![vec![RegInfix("wa", 105, true, "A"), RegPrefix("wc", "C")], vec![RegPostfix("wb", "B"), RegFn("wd", "D")]],
            post: vec![Exec("[1 wa 2, 1 wb, wc 1, wd()]")],
            write_set: vec![0, 1, 2, 3],
        },
        Workload {
            name: "W17-reentrant-handler-in-execute-vs-registrations",
            about: "execute() of a program whose function handler itself calls execute(), while another thread registers an infix operator and a function: both evaluations and both registrations complete (a lock held across a whole evaluation and wanted by a registration would deadlock here)",
            pre: vec![Exec("1 + 1"), RegReentrantFn("reent")],
            threads: vec![vec![Execute("reent(1) == [7, 1]"), Execute("reent() == [7, 0]")], vec![RegInfix("xr", 105, true, "R"), RegFn("other", "O")]],
            post: vec![Execute("[reent(), 1 xr 2, other()]")],
            write_set: vec![1, 3],
        },
        Workload {
            name: "W9-first-use-register-x2",
            about: "the first engine calls are two registrations (one of a built-in operator) and an evaluation",
            pre: vec![],
            threads: vec![vec![RegInfix("+", 110, true, "plus2")], vec![RegFn("sum", "S")], vec![Exec("sum(1, 2) + 3")]],
            post: vec![Exec("sum(1, 2) + 3")],
            write_set: vec![1, 3],
        },
    ]
}

/// workloads that belong to other properties but use this explorer
pub fn extra_workloads() -> Vec<Workload> {
    use Call::*;
    vec![
        Workload {
            name: "D1-describe-vs-binary-descriptor",
            about: "(C18) describe() of a binary node while another thread registers the descriptor for that operator and then describes twice itself",
            pre: vec![Exec("1 + 1")],
            threads: vec![vec![Describe("a + b")], vec![SetBinaryDescriptor("+", "B"), Describe("a + b")]],
            post: vec![Describe("a + b")],
            write_set: vec![],
        },
        Workload {
            name: "D3-describe-vs-replacement-of-a-binary-descriptor",
            about: "(C18) describe() while another thread REPLACES the descriptor registered for that operator: old or new, never the default",
            pre: vec![Exec("1 + 1"), SetBinaryDescriptor("+", "OLD")],
            threads: vec![vec![Describe("a + b"), Describe("a + b")], vec![SetBinaryDescriptor("+", "NEW")]],
            post: vec![Describe("a + b")],
            write_set: vec![],
        },
        Workload {
            name: "D4-describe-vs-replacement-of-a-reference-descriptor",
            about: "(C18) the same for a reference descriptor",
            pre: vec![Exec("1 + 1"), SetReferenceDescriptor("x", "OLD")],
            threads: vec![vec![Describe("x - y"), Describe("[x]")], vec![SetReferenceDescriptor("x", "NEW")]],
            post: vec![Describe("x")],
            write_set: vec![],
        },
        Workload {
            name: "D5-two-descriptor-registrations-at-once",
            about: "(C18) two threads register descriptors for different kinds (and one replaces an existing one) at the same time: afterwards every one of them is in effect (a registry that is copied, changed and published in separate steps loses one)",
            pre: vec![Exec("1 + 1"), SetReferenceDescriptor("y", "OLD")],
            threads: vec![vec![SetBinaryDescriptor("-", "B")], vec![SetReferenceDescriptor("x", "R"), SetReferenceDescriptor("y", "NEW")]],
            post: vec![Describe("x - y")],
            write_set: vec![],
        },
        Workload {
            name: "D2-describe-vs-reference-descriptor",
            about: "(C18) describe() of references while another thread registers a reference descriptor",
            pre: vec![Exec("1 + 1")],
            threads: vec![vec![Describe("f(x , y)")], vec![SetReferenceDescriptor("x", "R"), Describe("x - y")]],
            post: vec![Describe("[x , y]")],
            write_set: vec![],
        },
    ]
}

/// expr() racing a re-registration (C12's schedule stage)
pub fn render_workloads() -> Vec<Workload> {
    use Call::*;
    vec![
        Workload {
            name: "E1-roundtrip-vs-reregistration-of-builtin",
            about: "(C12) a round trip through expr() while another thread re-registers the built-in `*` (same precedence and associativity, another handler): the rendering must parse back to the same tree whenever it happens",
            pre: vec![Exec("1 + 1")],
            threads: vec![vec![RoundTrip("(a + b) * c"), RoundTrip("a * (b + c) * d")], vec![RegInfix("*", 120, true, "M")]],
            post: vec![RoundTrip("(a + b) * c")],
            write_set: vec![1],
        },
        Workload {
            name: "E2-roundtrip-vs-reregistration-of-user-operator",
            about: "(C12) the same with a user operator re-registered with the same precedence and associativity",
            pre: vec![Exec("1 + 1"), RegInfix("xo", 105, true, "O")],
            threads: vec![vec![RoundTrip("(a xo b) * c"), RoundTrip("a xo (b xo c)")], vec![RegInfix("xo", 105, true, "N")]],
            post: vec![RoundTrip("a xo (b xo c)")],
            write_set: vec![1],
        },
    ]
}

pub fn grouping_workloads() -> Vec<Workload> {
    use Call::*;
    vec![
        Workload {
            name: "G1-grouping-vs-reregistration-of-builtin",
            about: "(C02) parses whose grouping depends on `*` while another thread re-registers the built-in `*` with the precedence and associativity it already has (another handler): every parse must give the one tree there is, whenever it happens (an operator that is absent, or half-present, for a moment shows as another grouping or a rejection)",
            pre: vec![Exec("1 + 1")],
            threads: vec![vec![Parse("a + b * c"), Parse("a * b + c * d")], vec![RegInfix("*", 120, true, "M")]],
            post: vec![Parse("a + b * c")],
            write_set: vec![1],
        },
        Workload {
            name: "G2-grouping-vs-reregistration-of-user-operator",
            about: "(C02) the same with a user word operator between built-in levels, re-registered with the same precedence and associativity",
            pre: vec![Exec("1 + 1"), RegInfix("xo", 105, true, "O")],
            threads: vec![vec![Parse("a + b xo c == d"), Parse("a xo b xo c")], vec![RegInfix("xo", 105, true, "N")]],
            post: vec![Parse("a xo b xo c")],
            write_set: vec![1],
        },
        Workload {
            name: "G3-grouping-vs-registration-of-an-unrelated-operator",
            about: "(C02) parses of built-in operators only, while another thread registers operators the programs do not contain, on a new level below and on a new level between the levels in use: the grouping of the built-ins never depends on what else is in the table",
            pre: vec![Exec("1 + 1")],
            threads: vec![vec![Parse("a - b + c"), Parse("a * b - c + d == e")], vec![RegInfix("lowop", 15, true, "L"), RegInfix("midop", 115, true, "M")]],
            post: vec![Parse("a - b + c")],
            write_set: vec![1],
        },
    ]
}

pub fn accept_workloads() -> Vec<Workload> {
    use Call::*;
    vec![
        Workload {
            name: "A1-acceptance-vs-reregistration-of-builtin-word-operators",
            about: "(C05) malformed programs that are only malformed because `in` and `not` are operators, parsed while another thread re-registers those built-ins (same kind, precedence, associativity): each parse must be rejected, and the well-formed neighbour accepted, whenever it happens",
            pre: vec![Exec("1 + 1")],
            threads: vec![vec![Parse("1 in"), Parse("(not)"), Parse("1 in [1]")], vec![RegInfix("in", 200, true, "I"), RegPrefix("not", "N")]],
            post: vec![Parse("1 in"), Parse("(not)")],
            write_set: vec![0, 1],
        },
        Workload {
            name: "A2-acceptance-vs-reregistration-of-user-word-operators",
            about: "(C05) the same with a user infix word and a user postfix word",
            pre: vec![Exec("1 + 1"), RegInfix("within", 105, true, "O"), RegPostfix("pct", "P")],
            threads: vec![vec![Parse("1 within"), Parse("pct"), Parse("2 pct pct")], vec![RegInfix("within", 105, true, "N"), RegPostfix("pct", "Q")]],
            post: vec![Parse("1 within"), Parse("pct")],
            write_set: vec![1, 2],
        },
    ]
}

pub fn find_workload(name: &str) -> Option<Workload> {
    workloads().into_iter().chain(extra_workloads()).chain(render_workloads()).chain(grouping_workloads()).chain(accept_workloads()).find(|w| w.name == name)
}

fn tagged(name: &'static str, tag: &'static str) -> impl Fn(Vec<Value>) -> Value + Send + Sync + Clone {
    move |args: Vec<Value>| Value::String(format!("{}:{}({})", name, tag, args.iter().map(super::vals::show_value).collect::<Vec<_>>().join(",")))
}

pub fn run_call(c: &Call, ctx: &mut Context) -> String {
    let r = guarded(|| match c {
        Call::Exec(text) => {
            let t = parse_expression(text).map_err(|e| format!("Err(parse {:?})", e))?;
            t.exec(ctx).map(|v| format!("Ok({})", super::vals::show_value(&v))).map_err(|e| format!("Err({:?})", e))
        }
        Call::Parse(text) => parse_expression(text).map(|t| format!("Ok({:?})", conv(&t))).map_err(|e| format!("Err({:?})", e)),
        Call::RegFn(n, t) => {
            let f = tagged(n, t);
            expression_engine::register_function(n, Arc::new(move |a| Ok(f(a))));
            Ok("registered".into())
        }
        Call::RegPrefix(n, t) => {
            let f = tagged(n, t);
            expression_engine::register_prefix_op(n, Arc::new(move |a| Ok(f(vec![a]))));
            Ok("registered".into())
        }
        Call::RegPostfix(n, t) => {
            let f = tagged(n, t);
            expression_engine::register_postfix_op(n, Arc::new(move |a| Ok(f(vec![a]))));
            Ok("registered".into())
        }
        Call::RoundTrip(text) => {
            let t = parse_expression(text).map_err(|e| format!("Err(parse {:?})", e))?;
            let rendered = t.expr();
            match parse_expression(&rendered) {
                Ok(t2) if conv(&t2) == conv(&t) => Ok("Ok(same)".to_string()),
                Ok(_) => Ok(format!("Ok(differs: {:?})", rendered)),
                Err(e) => Ok(format!("Ok(rendering rejected: {:?} {:?})", rendered, e)),
            }
        }
        Call::Execute(text) => expression_engine::execute(text, Context::new()).map(|v| format!("Ok({})", super::vals::show_value(&v))).map_err(|e| format!("Err({:?})", e)),
        Call::RegReentrantFn(n) => {
            expression_engine::register_function(n, Arc::new(|a| expression_engine::execute("2 * 3 + 1", Context::new()).map(|v| Value::List(vec![v, Value::from(a.len() as i64)]))));
            Ok("registered".into())
        }
        Call::Describe(text) => parse_expression(text).map(|t| format!("Ok({:?})", t.describe())).map_err(|e| format!("Err({:?})", e)),
        Call::SetBinaryDescriptor(op, tag) => {
            let tag = tag.to_string();
            expression_engine::verif_hooks::DescriptorManager::new().set_binary_descriptor(op.to_string(), Arc::new(move |o, l, r| format!("<{}:{}|{}|{}>", tag, o, l, r)));
            Ok("registered".into())
        }
        Call::SetReferenceDescriptor(name, tag) => {
            let tag = tag.to_string();
            expression_engine::verif_hooks::DescriptorManager::new().set_reference_descriptor(name.to_string(), Arc::new(move |n| format!("<{}:{}>", tag, n)));
            Ok("registered".into())
        }
        Call::RegInfix(n, p, l, t) => {
            let f = tagged(n, t);
            expression_engine::register_infix_op(n, *p, InfixOpType::CALC, if *l { InfixOpAssociativity::LEFT } else { InfixOpAssociativity::RIGHT }, Arc::new(move |a, b| Ok(f(vec![a, b]))));
            Ok("registered".into())
        }
    });
    match r {
        Res::Ok(s) => s,
        Res::Err(s) => s,
        Res::Panic(m) => format!("PANIC({})", m.chars().take(120).collect::<String>()),
    }
}

// ---------------------------------------------------------------------------
// child side

/// `vh child sched <workload> <reduce 0|1> <choices|->`  /  `vh child seq <workload> <order>`
pub fn child_main(args: &[String]) -> i32 {
    let mode = args[0].as_str();
    let w = match find_workload(&args[1]) {
        Some(w) => w,
        None => return 2,
    };
    let w = &w;
    if mode == "seq" {
        // one thread, calls in the given order of thread ids
        let order: Vec<usize> = args[2].split(',').filter(|s| !s.is_empty()).map(|s| s.parse().unwrap()).collect();
        let mut main_ctx = Context::new();
        for c in &w.pre {
            run_call(c, &mut main_ctx);
        }
        let mut ctxs: Vec<Context> = w.threads.iter().map(|_| Context::new()).collect();
        let mut next = vec![0usize; w.threads.len()];
        let mut obs: Vec<Vec<String>> = w.threads.iter().map(|_| Vec::new()).collect();
        for t in order {
            let c = &w.threads[t][next[t]];
            next[t] += 1;
            obs[t].push(run_call(c, &mut ctxs[t]));
        }
        obs.push(w.post.iter().map(|c| run_call(c, &mut main_ctx)).collect());
        println!("CHILD-RESULT {}", json!({ "obs": obs }));
        return 0;
    }
    let reduce = args[2] == "1";
    let choices: Vec<usize> = if args[3] == "-" { vec![] } else { args[3].split(',').map(|s| s.parse().unwrap()).collect() };
    let n = w.threads.len();
    let sched = Sched::new(n, choices, w.write_set.iter().copied().collect(), reduce);
    let s2 = sched.clone();
    if !expression_engine::verif_hooks::sync::set_listener(Box::new(move |e| s2.on_event(e))) {
        return 2;
    }
    let mut main_ctx = Context::new();
    for c in &w.pre {
        run_call(c, &mut main_ctx);
    }
    #[allow(clippy::type_complexity)]
    let obs: Arc<Mutex<(Vec<Vec<String>>, Vec<(usize, usize, u64, u64)>)>> = Arc::new(Mutex::new((w.threads.iter().map(|_| Vec::new()).collect(), Vec::new())));
    let mut handles = Vec::new();
    for (i, calls) in w.threads.iter().enumerate() {
        let sched = sched.clone();
        let calls = calls.clone();
        let obs = obs.clone();
        handles.push(std::thread::spawn(move || {
            sched.thread_start(i);
            let mut ctx = Context::new();
            for (k, c) in calls.iter().enumerate() {
                // only the baton holder runs, so this clock orders call boundaries of all threads
                let start = CLOCK.fetch_add(1, std::sync::atomic::Ordering::SeqCst);
                let r = run_call(c, &mut ctx);
                let end = CLOCK.fetch_add(1, std::sync::atomic::Ordering::SeqCst);
                let mut o = obs.lock().unwrap();
                o.0.get_mut(i).unwrap().push(r);
                o.1.push((i, k, start, end));
            }
            sched.thread_end(i);
        }));
    }
    sched.start_all();
    // watchdog: a baton holder that blocks on something the hooks do not see
    let done = {
        let mut last = (sched.progress(), Instant::now());
        loop {
            let st = sched.lock_state();
            let finished = st.deadlock.is_some() || st.trace.len() > 200_000;
            drop(st);
            if finished || handles.iter().all(|h| h.is_finished()) {
                break true;
            }
            let p = sched.progress();
            if p != last.0 {
                last = (p, Instant::now());
            } else if last.1.elapsed() > Duration::from_millis(250) {
                // the baton holder sits somewhere the hooks do not see (a condition variable, a
                // spin loop, a foreign lock): let the others run; if nobody else can, it is stuck
                if sched.give_up_on_current() {
                    last = (sched.progress(), Instant::now());
                } else if last.1.elapsed() > Duration::from_secs(8) {
                    break false;
                }
            }
            std::thread::sleep(Duration::from_millis(1));
        }
    };
    let finished_ok = done && sched.wait_done();
    let mut rep = sched.report();
    let (mut all_obs, intervals) = obs.lock().unwrap().clone();
    rep["calls"] = json!(intervals.iter().map(|(t, k, s, e)| json!([t, k, s, e])).collect::<Vec<_>>());
    if finished_ok {
        // the main thread is untracked: these calls run without scheduling
        all_obs.push(w.post.iter().map(|c| run_call(c, &mut main_ctx)).collect());
    } else {
        all_obs.push(vec!["(not run)".to_string()]);
    }
    rep["obs"] = json!(all_obs);
    rep["stuck"] = json!(!done);
    rep["completed"] = json!(finished_ok);
    // registries outside the write set must hold exactly the built-in names (+ pre-registrations)
    // (only after a complete run: after a deadlock the registries are still locked by the
    // threads that wait for each other)
    if !finished_ok {
        println!("CHILD-RESULT {}", rep);
        std::process::exit(0);
    }
    let snap = expression_engine::verif_hooks::snapshot();
    rep["names"] = json!({
        "prefix": snap.prefix.iter().map(|x| x.0.clone()).collect::<Vec<_>>(),
        "infix": snap.infix.iter().map(|x| format!("{}@{}{}", x.0, x.1, if x.3 { "L" } else { "R" })).collect::<Vec<_>>(),
        "postfix": snap.postfix.iter().map(|x| x.0.clone()).collect::<Vec<_>>(),
        "functions": snap.functions.iter().map(|x| x.0.clone()).collect::<Vec<_>>(),
    });
    println!("CHILD-RESULT {}", rep);
    // threads may be parked forever after a deadlock: leave without joining
    std::process::exit(0);
}

// ---------------------------------------------------------------------------
// explorer side

fn run_child(args: &[String], timeout: Duration) -> Result<J, String> {
    let exe = std::env::current_exe().map_err(|e| e.to_string())?;
    let mut child = Command::new(exe).arg("child").args(args).stdin(Stdio::null()).stdout(Stdio::piped()).stderr(Stdio::null()).spawn().map_err(|e| e.to_string())?;
    let mut stdout = child.stdout.take().unwrap();
    let reader = std::thread::spawn(move || {
        let mut s = String::new();
        let _ = stdout.read_to_string(&mut s);
        s
    });
    let t0 = Instant::now();
    loop {
        match child.try_wait() {
            Ok(Some(_)) => break,
            Ok(None) => {
                if t0.elapsed() > timeout {
                    let _ = child.kill();
                    let _ = child.wait();
                    return Err("child timed out".into());
                }
                std::thread::sleep(Duration::from_micros(if t0.elapsed() < Duration::from_millis(30) { 200 } else { 2000 }));
            }
            Err(e) => return Err(e.to_string()),
        }
    }
    let out = reader.join().unwrap_or_default();
    for line in out.lines().rev() {
        if let Some(rest) = line.strip_prefix("CHILD-RESULT ") {
            return serde_json::from_str(rest).map_err(|e| e.to_string());
        }
    }
    Err(format!("child printed no result: {}", out.chars().take(200).collect::<String>()))
}

/// run one recorded schedule and return its per-thread results (for replay)
pub fn replay_schedule(workload: &str, choices: &str) -> String {
    match run_child(&["sched".into(), workload.into(), "1".into(), choices.trim().to_string()], Duration::from_secs(30)) {
        Ok(j) => format!("obs={} deadlock={} diverged={}", j["obs"], j["deadlock"], j["diverged"]),
        Err(e) => format!("child failed: {}", e),
    }
}

/// all interleavings of the threads' call sequences, as orders of thread ids
fn sequential_orders(w: &Workload) -> Vec<Vec<usize>> {
    fn go(rem: &mut Vec<usize>, cur: &mut Vec<usize>, out: &mut Vec<Vec<usize>>) {
        if rem.iter().all(|r| *r == 0) {
            out.push(cur.clone());
            return;
        }
        for t in 0..rem.len() {
            if rem[t] > 0 {
                rem[t] -= 1;
                cur.push(t);
                go(rem, cur, out);
                cur.pop();
                rem[t] += 1;
            }
        }
    }
    let mut rem: Vec<usize> = w.threads.iter().map(|c| c.len()).collect();
    let mut out = Vec::new();
    go(&mut rem, &mut Vec::new(), &mut out);
    out
}

fn bound_for(w: &Workload, tier: Tier) -> usize {
    // workloads that start after a warm-up have few decisions per execution: go deep
    if tier == Tier::Thorough && !w.pre.is_empty() {
        return if w.threads.len() == 2 { 8 } else { 4 };
    }
    match (w.threads.len(), tier) {
        (2, Tier::Quick) => 3,
        (2, Tier::Thorough) => 6,
        (_, Tier::Quick) => 1,
        (_, Tier::Thorough) => 3,
    }
}

struct Explored {
    schedules: u64,
    points: u64,
    max_points: u64,
    states: BTreeSet<u64>,
    outcomes: BTreeMap<String, u64>,
    noncandidates: u64,
}

/// Is there a sequential order of the calls with exactly these results? Besides each
/// thread's program order, one real-time constraint is imposed, the one the properties state
/// ("once register_* has returned, every later evaluation uses the most recently registered
/// handler"): a *registration* that returned before an *evaluation* started comes before it.
/// (Full real-time order between arbitrary calls is not demanded: the property speaks of
/// "some sequential order of the same calls".)
fn linearizable(w: &Workload, obs: &str, calls: &[(usize, usize, u64, u64)], allowed: &[(Vec<usize>, String)]) -> bool {
    let is_reg = |t: usize, k: usize| !matches!(w.threads[t][k], Call::Exec(_) | Call::Parse(_) | Call::Describe(_) | Call::RoundTrip(_));
    allowed.iter().any(|(order, o)| {
        if o != obs {
            return false;
        }
        // position of call (t, k) in the order
        let mut seen = BTreeMap::new();
        let mut pos = BTreeMap::new();
        for (p, t) in order.iter().enumerate() {
            let k = *seen.entry(*t).and_modify(|x| *x += 1usize).or_insert(0usize);
            pos.insert((*t, k), p);
        }
        calls.iter().all(|(ta, ka, _, ea)| {
            calls.iter().all(|(tb, kb, sb, _)| {
                if ea < sb && is_reg(*ta, *ka) && !is_reg(*tb, *kb) {
                    match (pos.get(&(*ta, *ka)), pos.get(&(*tb, *kb))) {
                        (Some(pa), Some(pb)) => pa < pb,
                        _ => true,
                    }
                } else {
                    true
                }
            })
        })
    })
}

fn explore(w: &Workload, bound: usize, reduce: bool, jobs: usize, budget: Duration, allowed: &[(Vec<usize>, String)], out: &mut WorkerOut) -> (Explored, bool) {
    let queue: Mutex<Vec<Vec<usize>>> = Mutex::new(vec![vec![]]);
    let inflight = Mutex::new(0usize);
    let agg = Mutex::new(Explored { schedules: 0, points: 0, max_points: 0, states: BTreeSet::new(), outcomes: BTreeMap::new(), noncandidates: 0 });
    let fails: Mutex<Vec<(String, String, String)>> = Mutex::new(Vec::new());
    let t0 = Instant::now();
    let capped = Mutex::new(false);
    // schedules in which a thread blocked (or span) outside the hooks: control over those is
    // partial by nature, so what cannot be reproduced there is counted, not treated as an error
    let foreign_seen = Mutex::new(0u64);
    let unreproducible = Mutex::new(0u64);
    std::thread::scope(|s| {
        for _ in 0..jobs {
            s.spawn(|| loop {
                let item = {
                    let mut q = queue.lock().unwrap();
                    let it = q.pop();
                    if it.is_some() {
                        *inflight.lock().unwrap() += 1;
                    }
                    it
                };
                let prefix = match item {
                    Some(p) => p,
                    None => {
                        if *inflight.lock().unwrap() == 0 {
                            break;
                        }
                        std::thread::sleep(Duration::from_micros(300));
                        continue;
                    }
                };
                if t0.elapsed() > budget {
                    *capped.lock().unwrap() = true;
                    *inflight.lock().unwrap() -= 1;
                    continue;
                }
                let ch = if prefix.is_empty() { "-".to_string() } else { prefix.iter().map(|c| c.to_string()).collect::<Vec<_>>().join(",") };
                let case = format!("{}|choices={}", w.name, ch);
                let res = run_child(&["sched".into(), w.name.into(), if reduce { "1".into() } else { "0".into() }, ch.clone()], Duration::from_secs(30));
                match res {
                    Err(e) => fails.lock().unwrap().push(("machinery:child-failed".into(), case, e)),
                    Ok(j) => {
                        if hash64(&ch) % 64 == 0 {
                            // own every source of nondeterminism, then prove it: same choices, same run
                            if let Ok(j2) = run_child(&["sched".into(), w.name.into(), if reduce { "1".into() } else { "0".into() }, ch.clone()], Duration::from_secs(30)) {
                                if j2["obs"] != j["obs"] || j2["points"] != j["points"] {
                                    if j["foreign_blocks"].as_u64().unwrap_or(0) + j2["foreign_blocks"].as_u64().unwrap_or(0) > 0 {
                                        *unreproducible.lock().unwrap() += 1;
                                    } else {
                                        fails.lock().unwrap().push(("machinery:nondeterministic-replay".into(), case.clone(), "the same choice sequence produced a different execution".into()));
                                    }
                                }
                                agg.lock().unwrap().noncandidates += 0;
                            }
                        }
                        let points = j["points"].as_array().cloned().unwrap_or_default();
                        let choices: Vec<usize> = points.iter().map(|p| p["c"].as_u64().unwrap_or(0) as usize).collect();
                        let obs = j["obs"].to_string();
                        {
                            let mut a = agg.lock().unwrap();
                            a.schedules += 1;
                            a.points += points.len() as u64;
                            a.max_points = a.max_points.max(points.len() as u64);
                            a.noncandidates += j["noncandidates"].as_u64().unwrap_or(0);
                            *a.outcomes.entry(obs.clone()).or_insert(0) += 1;
                            // scheduler states: per-thread progress vector after each decision
                            let mut prog = vec![0u32; w.threads.len()];
                            for p in &points {
                                let t = p["t"].as_u64().unwrap_or(0) as usize;
                                if t < prog.len() {
                                    prog[t] += 1;
                                }
                                a.states.insert(hash64(&format!("{:?}", prog)));
                            }
                        }
                        let foreign = j["foreign_blocks"].as_u64().unwrap_or(0);
                        if foreign > 0 {
                            *foreign_seen.lock().unwrap() += 1;
                        }
                        let mut f = fails.lock().unwrap();
                        if let Some(d) = j["diverged"].as_str() {
                            if foreign > 0 {
                                // the prefix was recorded in an execution whose timing it cannot pin down
                                *unreproducible.lock().unwrap() += 1;
                                drop(f);
                                *inflight.lock().unwrap() -= 1;
                                continue;
                            }
                            f.push(("machinery:replay-diverged".into(), case.clone(), d.to_string()));
                        }
                        let stuck = j["stuck"].as_bool() == Some(true);
                        if stuck {
                            // (the results of a run that was cut off are not judged.) Every thread sits
                            // in something the hooks do not see and none of them gets out of it:
                            // if the same schedule ends like that again and again, they are waiting
                            // for each other
                            drop(f);
                            let already = fails.lock().unwrap().iter().any(|x| x.0.starts_with("deadlock:"));
                            let again = if already {
                                0
                            } else {
                                (0..2).filter(|_| run_child(&["sched".into(), w.name.into(), if reduce { "1".into() } else { "0".into() }, ch.clone()], Duration::from_secs(30)).map(|j2| j2["stuck"].as_bool() == Some(true)).unwrap_or(false)).count()
                            };
                            f = fails.lock().unwrap();
                            if again == 2 {
                                f.push((format!("deadlock:{}:all-threads-blocked-outside-the-hooks", w.name), case.clone(), "three runs of this schedule out of three ended with every unfinished thread blocked (for 8 s) in a primitive the hooks do not wrap, none of them able to go on".into()));
                            } else if !already {
                                f.push(("machinery:uncontrolled-blocking".into(), case.clone(), "nobody made progress for 8 s and nobody could be scheduled (a primitive the hooks do not wrap?), and the same schedule did not end like that again".into()));
                            }
                        }
                        if stuck {
                        } else if let Some(d) = j["deadlock"].as_str() {
                            f.push((format!("deadlock:{}", w.name), case.clone(), d.to_string()));
                        } else if obs.contains("PANIC(") {
                            f.push((format!("panic-in-thread:{}", w.name), case.clone(), obs.clone()));
                        } else if !linearizable(w, &obs, &j["calls"].as_array().map(|a| a.iter().filter_map(|c| Some((c[0].as_u64()? as usize, c[1].as_u64()? as usize, c[2].as_u64()?, c[3].as_u64()?))).collect::<Vec<_>>()).unwrap_or_default(), allowed) {
                            // the key identifies the exact per-thread result vectors (post-join results
                            // follow from them and are left out of the key)
                            let threads_only = serde_json::Value::Array(j["obs"].as_array().map(|a| a[..w.threads.len().min(a.len())].to_vec()).unwrap_or_default()).to_string();
                            f.push((format!("not-linearizable:{}:outcome-{:08x}", w.name, hash64(&threads_only) & 0xffff_ffff), case.clone(), format!("per-thread results {} equal no sequential order of the calls (in which a registration that had returned before an evaluation started comes first); sequential outcomes: {:?}", obs, allowed.iter().map(|a| &a.1).collect::<BTreeSet<_>>())));
                        }
                        if j["shared_contexts"].as_array().map(|a| !a.is_empty()).unwrap_or(false) {
                            f.push(("machinery:context-shared-between-threads".into(), case.clone(), "a context mutex was touched by two threads: the thread-local reduction is not valid".into()));
                        }
                        drop(f);
                        // children of this execution: alternatives at every decision after the prefix
                        let mut cost = 0usize;
                        let mut new_items = Vec::new();
                        for (i, p) in points.iter().enumerate() {
                            let n = p["n"].as_u64().unwrap_or(1) as usize;
                            let ce = p["ce"].as_bool().unwrap_or(false);
                            let c = choices[i];
                            if i >= prefix.len() {
                                for alt in 1..n {
                                    let ac = cost + if ce { 1 } else { 0 };
                                    if ac <= bound {
                                        let mut np = choices[..i].to_vec();
                                        np.push(alt);
                                        new_items.push(np);
                                    }
                                }
                            }
                            if c != 0 && ce {
                                cost += 1;
                            }
                        }
                        queue.lock().unwrap().extend(new_items);
                    }
                }
                *inflight.lock().unwrap() -= 1;
            });
        }
    });
    for (k, c, d) in fails.into_inner().unwrap() {
        out.fail(k, c, d);
    }
    let capped = *capped.lock().unwrap();
    let (fs, un) = (*foreign_seen.lock().unwrap(), *unreproducible.lock().unwrap());
    if fs > 0 {
        out.count("schedules_with_a_thread_blocked_outside_the_hooks", fs);
        out.count("schedules_not_reproducible_under_foreign_blocking", un);
    }
    // a cap hit because such schedules are slow (each give-up costs real time) is reported as a
    // cap, not as a machinery error
    (agg.into_inner().unwrap(), capped && fs == 0)
}

/// sequential reference + exploration of one workload (used by C13 and by C18's schedule stage)
pub fn check_workload(w: &Workload, bound: usize, budget: Duration, out: &mut WorkerOut) {
    let jobs = std::env::var("VERIF_JOBS").ok().and_then(|s| s.parse().ok()).unwrap_or_else(|| std::thread::available_parallelism().map(|n| n.get()).unwrap_or(8).clamp(2, 32));
    let mut allowed: Vec<(Vec<usize>, String)> = Vec::new();
    for order in sequential_orders(w) {
        let o = order.iter().map(|t| t.to_string()).collect::<Vec<_>>().join(",");
        match run_child(&["seq".into(), w.name.into(), o.clone()], Duration::from_secs(30)) {
            Ok(j) => allowed.push((order.clone(), j["obs"].to_string())),
            Err(e) => out.fail("machinery:seq-child-failed", format!("{}|order={}", w.name, o), e),
        }
    }
    let distinct_allowed: BTreeSet<&String> = allowed.iter().map(|a| &a.1).collect();
    let n_allowed = distinct_allowed.len();
    let (mut ex, capped) = explore(w, bound, true, jobs, budget, &allowed, out);
    {
        // a second pass without the reductions on registry reads (every registry lock is a
        // candidate) at one preemption: hidden state between two reads of "read-only" registries,
        // or shared by two evaluations that the reduced pass never interleaves, shows here
        let (ex1, _) = explore(w, 1, false, jobs, budget, &allowed, out);
        out.count(&format!("schedules_unreduced_bound1:{}", w.name), ex1.schedules);
        ex.schedules += ex1.schedules;
        ex.points += ex1.points;
        ex.max_points = ex.max_points.max(ex1.max_points);
        ex.states.extend(ex1.states);
        for (k, v) in ex1.outcomes {
            *ex.outcomes.entry(k).or_insert(0) += v;
        }
    }
    out.evals += ex.schedules;
    out.count("validated", ex.schedules);
    out.count("states", ex.states.len() as u64);
    out.count("transitions", ex.points);
    out.count("noncandidate_points", ex.noncandidates);
    out.count(&format!("schedules:{}", w.name), ex.schedules);
    out.count(&format!("max_points:{}", w.name), ex.max_points);
    out.count(&format!("sequential_outcomes:{}", w.name), n_allowed as u64);
    out.count(&format!("observed_outcomes:{}", w.name), ex.outcomes.len() as u64);
    if capped {
        out.count("time_capped_workloads", 1);
        if !out.fails.keys().any(|k| !k.starts_with("machinery:")) {
            out.fail("machinery:exploration-capped", format!("{}|bound={}", w.name, bound), format!("time budget hit after {} schedules; the bound was not completed", ex.schedules));
        }
    }
    for o in ex.outcomes.keys() {
        out.nontrivial.insert(hash64(&format!("{}{}", w.name, o)));
        out.outcomes.insert(format!("{}:{}", w.name, hash64(o) % 1000));
    }
    if n_allowed >= 2 && ex.outcomes.len() < 2 && !capped {
        out.fail("machinery:vacuous-workload", format!("{}|bound={}", w.name, bound), format!("sequential orders give {} outcomes but {} schedules produced only one", n_allowed, ex.schedules));
    }
    out.sample(format!("{}: {} schedules, bound {}, up to {} decisions each, {} distinct result vectors (sequential reference: {})", w.name, ex.schedules, bound, ex.max_points, ex.outcomes.len(), n_allowed));
}

impl Prop for C13 {
    fn id(&self) -> &'static str {
        "C13"
    }
    fn plan(&self, tier: Tier) -> Plan {
        let ws = workloads();
        Plan {
            stages: ws
                .iter()
                .map(|w| Stage { name: w.name.into(), len: 1, chunk: 1, timeout: Duration::from_secs(tier.pick(600, 3600)), what: w.about.into() })
                .collect(),
            rule: format!(
                "{} workloads of 2-3 real threads with 1-2 public-API calls each and a Context per thread; scheduling points = every Mutex::lock, every OnceCell::get_or_init (once-flag and store cells), every init stage, thread start and end; all schedules with <= k preemptions (k = {} for 2 threads, {} for 3 threads), one fresh process per schedule. \
                 Reductions (both commute arguments, checked dynamically): locks of a thread's own Context and reads of an already-set cell are not preemption candidates; after initialisation, locks of registries the workload never writes are not candidates. \
                 Oracle: per-thread result vectors equal those of some sequential order of the calls (orders run in fresh processes), no panic, no deadlock, replay divergence = machinery error. distinct = distinct per-thread result vectors over all workloads",
                ws.len(),
                tier.pick(3, 6),
                tier.pick(1, 3)
            ),
            assumptions: vec![
                "the crate has no unsafe code and shares state only through Mutex / OnceCell (driver greps; VERIF_SCOPE_WARNING in the evidence otherwise), so scheduling at those operations is sufficient".into(),
                "sequential consistency; std::sync::Mutex and once_cell themselves are trusted".into(),
                "a blocking primitive the hooks do not wrap shows up as 'uncontrolled blocking' (exit 2), never as a pass".into(),
            ],
            exhaustive: true,
            bound: format!("preemption bound {} (2 threads) / {} (3 threads); threads <= 3; calls <= 2 per thread", tier.pick(3, 6), tier.pick(1, 3)),
            states_note: "states = distinct scheduler states (per-thread progress vectors) visited; transitions = scheduling decisions taken over all schedules".into(),
        }
    }
    fn run(&self, tier: Tier, stage: usize, _a: u64, _b: u64, out: &mut WorkerOut) {
        let ws = workloads();
        let w = &ws[stage];
        out.at(0);
        let jobs = std::env::var("VERIF_JOBS").ok().and_then(|s| s.parse().ok()).unwrap_or_else(|| std::thread::available_parallelism().map(|n| n.get()).unwrap_or(8).clamp(2, 32));
        let bound = bound_for(w, tier);
        let budget = Duration::from_secs(tier.pick(45, 1500));
        check_workload(w, bound, budget, out);
        let mut allowed: Vec<(Vec<usize>, String)> = Vec::new();
        for order in sequential_orders(w) {
            let o = order.iter().map(|t| t.to_string()).collect::<Vec<_>>().join(",");
            if let Ok(j) = run_child(&["seq".into(), w.name.into(), o], Duration::from_secs(30)) {
                allowed.push((order, j["obs"].to_string()));
            }
        }
        // the reduction must not change the verdict or the outcome set (W1, bound 1, quick cross-check)
        if stage == 0 {
            let mut tmp = WorkerOut::default();
            let (full, _) = explore(w, 1, false, jobs, Duration::from_secs(120), &allowed, &mut tmp);
            let (red, _) = explore(w, 1, true, jobs, Duration::from_secs(120), &allowed, &mut tmp);
            let a: BTreeSet<&String> = full.outcomes.keys().collect();
            let b: BTreeSet<&String> = red.outcomes.keys().collect();
            out.count("reduction_crosscheck_full_schedules", full.schedules);
            out.count("reduction_crosscheck_reduced_schedules", red.schedules);
            if a != b {
                out.fail("machinery:reduction-changes-outcomes", format!("{}|bound=1", w.name), format!("unreduced outcomes {:?} vs reduced {:?}; failures {:?}", a, b, tmp.fails.keys().collect::<Vec<_>>()));
            }
        }
    }
    fn case_text(&self, _tier: Tier, stage: usize, _i: u64) -> String {
        workloads()[stage].name.to_string()
    }
    fn min_outcomes(&self) -> usize {
        5
    }
}
