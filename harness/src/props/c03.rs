//! C03 — built-in operators and functions compute the documented values; a wrongly typed
//! operand is an error. Exhaustive over the value alphabet V (every variant, every edge the
//! handlers branch on) for every operator, against the reference evaluator.
use super::vals::*;
use crate::core::*;
use crate::gen::ALL_INFIX;
use crate::model::eval::World;
use expression_engine::Value;
use std::time::Duration;

pub struct C03;

pub struct Case {
    pub program: String,
    pub bindings: Vec<(String, Value)>,
    pub key: String,
    /// an Err from the engine is acceptable as well (empty aggregates)
    pub lenient_err: bool,
}

fn bind(names: &[&str], vals: &[&Value]) -> Vec<(String, Value)> {
    names.iter().zip(vals).map(|(n, v)| (n.to_string(), (*v).clone())).collect()
}

pub fn cases(tier: Tier) -> Vec<Case> {
    let v = alphabet();
    let mut out = Vec::new();
    // every infix operator x every ordered pair, operands as variables and as literal text
    for op in ALL_INFIX {
        for a in &v {
            for b in &v {
                let key = format!("{}:{}:{}", op, class(a), class(b));
                out.push(Case { program: format!("a {} b", op), bindings: bind(&["a", "b"], &[a, b]), key: key.clone(), lenient_err: false });
                let setter = op.ends_with('=') && !matches!(*op, "==" | "!=" | "<=" | ">=");
                if setter {
                    // read the target back
                    out.push(Case { program: format!("a {} b; a", op), bindings: bind(&["a", "b"], &[a, b]), key: format!("{}:readback", key), lenient_err: false });
                } else {
                    out.push(Case { program: format!("{} {} {}", as_expr(a), op, as_expr(b)), bindings: vec![], key: format!("{}:literal", key), lenient_err: false });
                }
            }
        }
    }
    for op in ["-", "+", "!", "not", "AND", "OR"] {
        for a in &v {
            out.push(Case { program: format!("{} a", op), bindings: bind(&["a"], &[a]), key: format!("prefix{}:{}", op, class(a)), lenient_err: matches!(a, Value::List(l) if l.is_empty()) });
            out.push(Case { program: format!("{} {}", op, as_expr(a)), bindings: vec![], key: format!("prefix{}:{}:literal", op, class(a)), lenient_err: matches!(a, Value::List(l) if l.is_empty()) });
        }
    }
    for op in ["++", "--"] {
        for a in &v {
            out.push(Case { program: format!("a {}", op), bindings: bind(&["a"], &[a]), key: format!("postfix{}:{}", op, class(a)), lenient_err: false });
            // postfix does not assign
            out.push(Case { program: format!("a {}; a", op), bindings: bind(&["a"], &[a]), key: format!("postfix{}:{}:no-assign", op, class(a)), lenient_err: false });
        }
    }
    // aggregates: argument lists of length 0..3 over a 9-value sub-alphabet
    let sub = vec![d("1"), d("2"), d("-1"), d("0"), d("0.5"), d("2.0"), d("0.0000000000000000000000000001"), Value::Number(rust_decimal::Decimal::MAX), Value::Bool(true), Value::String("a".into()), Value::None];
    let mut arglists: Vec<Vec<&Value>> = vec![vec![]];
    for a in &sub {
        arglists.push(vec![a]);
        for b in &sub {
            arglists.push(vec![a, b]);
            for c in &sub {
                arglists.push(vec![a, b, c]);
            }
        }
    }
    for f in ["min", "max", "sum", "mul"] {
        for args in &arglists {
            let names = ["a", "b", "c"];
            let used: Vec<&str> = names[..args.len()].to_vec();
            out.push(Case {
                program: format!("{}({})", f, used.join(", ")),
                bindings: bind(&used, args),
                key: format!("{}:{}", f, args.iter().map(|x| class(x)).collect::<Vec<_>>().join(",")),
                lenient_err: args.is_empty() && (f == "sum" || f == "mul"),
            });
        }
    }
    // AND / OR over lists of length 0..3 over {true,false,1,None}
    let bsub = vec![Value::Bool(true), Value::Bool(false), d("1"), Value::None];
    let mut lists: Vec<Vec<Value>> = vec![vec![]];
    for a in &bsub {
        lists.push(vec![a.clone()]);
        for b in &bsub {
            lists.push(vec![a.clone(), b.clone()]);
            for c in &bsub {
                lists.push(vec![a.clone(), b.clone(), c.clone()]);
            }
        }
    }
    for op in ["AND", "OR"] {
        for l in &lists {
            let lv = Value::List(l.clone());
            out.push(Case { program: format!("{} l", op), bindings: bind(&["l"], &[&lv]), key: format!("{}:[{}]", op, l.iter().map(class).collect::<Vec<_>>().join(",")), lenient_err: l.is_empty() });
            out.push(Case { program: format!("{} {}", op, as_expr(&lv)), bindings: vec![], key: format!("{}:[{}]:literal", op, l.iter().map(class).collect::<Vec<_>>().join(",")), lenient_err: l.is_empty() });
        }
    }
    // conditional selection, list / map construction, membership on nested values
    for c in &v {
        for (x, y) in [(&v[2], &v[3]), (&v[30], &v[36])] {
            out.push(Case { program: "c ? x : y".into(), bindings: bind(&["c", "x", "y"], &[c, x, y]), key: format!("ternary:{}", class(c)), lenient_err: false });
        }
        for b in &v {
            out.push(Case { program: "[a, b]".into(), bindings: bind(&["a", "b"], &[c, b]), key: format!("list:{}:{}", class(c), class(b)), lenient_err: false });
            out.push(Case { program: "{a : b}".into(), bindings: bind(&["a", "b"], &[c, b]), key: format!("map:{}:{}", class(c), class(b)), lenient_err: false });
            out.push(Case { program: "a in [b, a]".into(), bindings: bind(&["a", "b"], &[c, b]), key: format!("in-constructed:{}:{}", class(c), class(b)), lenient_err: false });
            out.push(Case { program: "a in [b]".into(), bindings: bind(&["a", "b"], &[c, b]), key: format!("in-singleton:{}:{}", class(c), class(b)), lenient_err: false });
            // a map is the ordered list of every written pair, equal keys included
            out.push(Case { program: "{a : 1, b : 2}".into(), bindings: bind(&["a", "b"], &[c, b]), key: format!("map2:{}:{}", class(c), class(b)), lenient_err: false });
            out.push(Case { program: "{a : b, a : a} == {a : b, a : a}".into(), bindings: bind(&["a", "b"], &[c, b]), key: format!("map2-eq:{}:{}", class(c), class(b)), lenient_err: false });
        }
    }
    // the unselected branch of a conditional is not evaluated: no fault, no assignment
    for c in [Value::Bool(true), Value::Bool(false)] {
        for prog in ["c ? 1 : 1 / 0", "c ? 1 / 0 : 2", "c ? (x = 1) : (x = 2) ; x", "c ? 1 : nofn()", "c ? 'a' + 1 : 5", "(c ? 1 : 1 / 0) + (c ? 1 / 0 : 2)", "x = 5 ; c ? x : (x = 6) ; x", "c ? (x = 1) : 0 ; x", "c ? 0 : (x = 2) ; x", "x = 9 ; c ? (x += 1) : (x -= 1) ; x", "[c ? (x = 1) : 2, x]"] {
            out.push(Case { program: prog.into(), bindings: bind(&["c"], &[&c]), key: format!("ternary-lazy:{}:{}", prog.replace(' ', ""), show_value(&c)), lenient_err: false });
        }
    }
    // variables whose name only STARTS with an operator word (a dotted path, an underscore, a
    // digit after it): whole names, never the operator followed by a rest
    for w in ["in", "not", "OR", "AND", "beginWith", "endWith"] {
        for name in [format!("{}.qty", w), format!("{}_qty", w), format!("{}1", w), format!("{}.a.b", w), format!("qty.{}", w)] {
            let two = Value::Number(rust_decimal::Decimal::from(2));
            for prog in [format!("{} * 5 + 1", name), format!("[{}, {}]", name, name), format!("1 + {}", name), format!("{} = {} + 1 ; {}", name, name, name)] {
                out.push(Case { program: prog.clone(), bindings: vec![(name.clone(), two.clone())], key: format!("operator-word-prefix:{}:{}", w, prog.len()), lenient_err: false });
            }
        }
    }
    out.extend(wide_cases());
    out.extend(deep_cases());
    // infix `not`: x not OP y is not(x OP y), for every calculating operator and operand pair
    for op in ALL_INFIX {
        if op.ends_with('=') && !matches!(*op, "==" | "!=" | "<=" | ">=") {
            continue;
        }
        for a in &v {
            for b in &v {
                out.push(Case { program: format!("a not {} b", op), bindings: bind(&["a", "b"], &[a, b]), key: format!("not-{}:{}:{}", op, class(a), class(b)), lenient_err: false });
            }
        }
    }
    out.extend(unary_compositions(&v));
    // `not OP` behind two operators of rising precedence (the negation belongs to the whole
    // comparison, whatever the parser had to unwind to get there)
    {
        let small = alphabet_small();
        for op in ALL_INFIX {
            if op.ends_with('=') && !matches!(*op, "==" | "!=" | "<=" | ">=") {
                continue;
            }
            for (i, a) in small.iter().enumerate() {
                for d4 in small.iter().skip(i % 3).step_by(3) {
                    out.push(Case { program: format!("a + 2 * 3 not {} d", op), bindings: bind(&["a", "d"], &[a, d4]), key: format!("not-{}-after-sum-of-product:{}:{}", op, class(a), class(d4)), lenient_err: false });
                    out.push(Case { program: format!("true || false && a not {} d", op), bindings: bind(&["a", "d"], &[a, d4]), key: format!("not-{}-after-or-of-and:{}:{}", op, class(a), class(d4)), lenient_err: false });
                }
            }
        }
    }
    // depth-2 compositions (a op1 b) op2 c
    let ops2 = ["+", "-", "*", "/", "%", "<", "<=", "==", "!=", "&&", "||", "|", "&", "<<", ">>", "in", "beginWith"];
    let small = if tier == Tier::Quick { alphabet_small() } else { alphabet() };
    let ops2: Vec<&str> = if tier == Tier::Quick { ops2.to_vec() } else { ALL_INFIX.iter().copied().filter(|o| !o.ends_with('=') || matches!(*o, "==" | "!=" | "<=" | ">=")).collect() };
    let small = if tier == Tier::Thorough { small.into_iter().step_by(2).collect::<Vec<_>>() } else { small };
    for o1 in &ops2 {
        for o2 in &ops2 {
            for a in &small {
                for b in &small {
                    for c in &small {
                        out.push(Case {
                            program: format!("(a {} b) {} c", o1, o2),
                            bindings: bind(&["a", "b", "c"], &[a, b, c]),
                            key: format!("compose:{}:{}:{}:{}:{}", o1, o2, class(a), class(b), class(c)),
                            lenient_err: false,
                        });
                    }
                }
            }
        }
    }
    out
}

/// one-operand operators composed: prefix over prefix, prefix over postfix, postfix over
/// prefix / postfix, over every value (a fused or cancelled pair must still type-check)
pub fn unary_compositions(v: &[Value]) -> Vec<Case> {
    let mut out = Vec::new();
    let pre = ["-", "+", "!", "not", "AND", "OR"];
    let post = ["++", "--"];
    for a in v {
        for p1 in pre {
            for p2 in pre {
                out.push(Case { program: format!("{} {} a", p1, p2), bindings: bind(&["a"], &[a]), key: format!("prefix{}-over-prefix{}:{}", p1, p2, class(a)), lenient_err: false });
                out.push(Case { program: format!("{} {} {}", p1, p2, as_expr(a)), bindings: vec![], key: format!("prefix{}-over-prefix{}:{}:literal", p1, p2, class(a)), lenient_err: false });
            }
            for q in post {
                out.push(Case { program: format!("{} a {}", p1, q), bindings: bind(&["a"], &[a]), key: format!("prefix{}-over-postfix{}:{}", p1, q, class(a)), lenient_err: false });
                out.push(Case { program: format!("{} {} {}", p1, as_expr(a), q), bindings: vec![], key: format!("prefix{}-over-postfix{}:{}:literal", p1, q, class(a)), lenient_err: false });
                out.push(Case { program: format!("({} a) {}", p1, q), bindings: bind(&["a"], &[a]), key: format!("postfix{}-over-prefix{}:{}", q, p1, class(a)), lenient_err: false });
            }
        }
        for q1 in post {
            for q2 in post {
                out.push(Case { program: format!("(a {}) {}", q1, q2), bindings: bind(&["a"], &[a]), key: format!("postfix{}-over-postfix{}:{}", q2, q1, class(a)), lenient_err: false });
            }
        }
    }
    out
}

/// Arity / length ladder: aggregates, AND / OR, list and map construction, membership and the
/// string tests at every size 4..=20 and around 32, 64, 100, 256 (anything processed in chunks,
/// unrolled, or switched to another algorithm above a size), with an ill-typed or deciding
/// element at every position (all positions up to 17 elements, edge positions above).
pub fn wide_cases() -> Vec<Case> {
    let mut out = Vec::new();
    let mut sizes: Vec<usize> = (4..=20).collect();
    sizes.extend([31, 32, 33, 63, 64, 65, 100, 255, 256, 257]);
    let positions = |n: usize| -> Vec<usize> {
        if n <= 17 {
            (0..n).collect()
        } else {
            let mut p: Vec<usize> = [0, 1, 3, 4, 7, 8, 15, 16, 31, 32, 63, 64, n / 2, n - 2, n - 1].iter().copied().filter(|k| *k < n).collect();
            p.sort();
            p.dedup();
            p
        }
    };
    let num = |i: usize| -> Value {
        let base = ((i * 7) % 13) as i64 - 4;
        if i % 3 == 0 {
            d(&format!("{}.5", base.abs()))
        } else {
            d(&base.to_string())
        }
    };
    let factor = |i: usize| -> Value { [d("2"), d("0.5"), d("-1"), d("1.5"), d("1")][i % 5].clone() };
    for n in &sizes {
        let n = *n;
        for f in ["min", "max", "sum", "mul"] {
            let vals: Vec<Value> = (0..n).map(|i| if f == "mul" { factor(i) } else { num(i) }).collect();
            let text = |vals: &[Value]| format!("{}({})", f, vals.iter().map(as_expr).collect::<Vec<_>>().join(", "));
            out.push(Case { program: text(&vals), bindings: vec![], key: format!("wide:{}:n={}", f, n), lenient_err: false });
            for k in positions(n) {
                // one ill-typed argument at position k
                let mut v2 = vals.clone();
                v2[k] = Value::Bool(true);
                out.push(Case { program: text(&v2), bindings: vec![], key: format!("wide:{}:n={}:ill-typed@{}", f, n, k), lenient_err: false });
                // the deciding argument at position k (extreme for min / max, zero for mul)
                let mut v3 = vals.clone();
                v3[k] = match f {
                    "min" => d("-1000"),
                    "max" => d("1000"),
                    "mul" => d("0"),
                    _ => d("1000000"),
                };
                out.push(Case { program: text(&v3), bindings: vec![], key: format!("wide:{}:n={}:deciding@{}", f, n, k), lenient_err: false });
            }
        }
        for (op, base) in [("AND", true), ("OR", false)] {
            let vals: Vec<Value> = (0..n).map(|_| Value::Bool(base)).collect();
            let text = |vals: &[Value]| format!("{} [{}]", op, vals.iter().map(as_expr).collect::<Vec<_>>().join(", "));
            out.push(Case { program: text(&vals), bindings: vec![], key: format!("wide:{}:n={}", op, n), lenient_err: false });
            for k in positions(n) {
                let mut v2 = vals.clone();
                v2[k] = Value::Bool(!base);
                out.push(Case { program: text(&v2), bindings: vec![], key: format!("wide:{}:n={}:deciding@{}", op, n, k), lenient_err: false });
                let mut v3 = vals.clone();
                v3[k] = d("1");
                out.push(Case { program: text(&v3), bindings: vec![], key: format!("wide:{}:n={}:ill-typed@{}", op, n, k), lenient_err: false });
                // the same list bound as a variable
                out.push(Case { program: format!("{} l", op), bindings: vec![("l".into(), Value::List(v2.clone()))], key: format!("wide:{}:n={}:variable:deciding@{}", op, n, k), lenient_err: false });
            }
        }
        // construction and membership
        let items: Vec<Value> = (0..n).map(|i| d(&i.to_string())).collect();
        let lit = format!("[{}]", items.iter().map(as_expr).collect::<Vec<_>>().join(", "));
        out.push(Case { program: format!("{} == l", lit), bindings: vec![("l".into(), Value::List(items.clone()))], key: format!("wide:list-construction:n={}", n), lenient_err: false });
        out.push(Case { program: lit.clone(), bindings: vec![], key: format!("wide:list-value:n={}", n), lenient_err: false });
        let entries: Vec<(Value, Value)> = (0..n).map(|i| (d(&i.to_string()), d(&(i * i).to_string()))).collect();
        let mlit = format!("{{{}}}", entries.iter().map(|(k, v)| format!("{} : {}", as_expr(k), as_expr(v))).collect::<Vec<_>>().join(", "));
        out.push(Case { program: mlit, bindings: vec![], key: format!("wide:map-value:n={}", n), lenient_err: false });
        for k in positions(n) {
            out.push(Case { program: format!("{} in {}", k, lit), bindings: vec![], key: format!("wide:in:n={}:member@{}", n, k), lenient_err: false });
            out.push(Case { program: format!("x in l"), bindings: vec![("x".into(), d(&k.to_string())), ("l".into(), Value::List(items.clone()))], key: format!("wide:in:n={}:variable:member@{}", n, k), lenient_err: false });
        }
        out.push(Case { program: format!("{} in {}", n, lit), bindings: vec![], key: format!("wide:in:n={}:absent", n), lenient_err: false });
        out.push(Case { program: format!("{}.0 in {}", n - 1, lit), bindings: vec![], key: format!("wide:in:n={}:equal-other-scale", n), lenient_err: false });
        // string tests on long strings: the affix at the very start / end, and one character off
        let long = format!("{}b", "a".repeat(n));
        for (prog, what) in [
            (format!("'{}' endWith 'ab'", long), "endWith:true"),
            (format!("'{}' endWith 'bb'", long), "endWith:false"),
            (format!("'{}' beginWith '{}'", long, "a".repeat(n)), "beginWith:true"),
            (format!("'{}' beginWith '{}b'", long, "a".repeat(n - 1)), "beginWith:false"),
            (format!("'{}' endWith '{}'", long, long), "endWith:whole"),
            (format!("'{}' beginWith 'x{}'", long, long), "beginWith:longer"),
            (format!("'{}' == '{}'", long, long), "eq:true"),
            (format!("'{}' == '{}c'", long, "a".repeat(n)), "eq:last-differs"),
            (format!("'{}' + '{}'", long, long), "concat"),
        ] {
            out.push(Case { program: prog, bindings: vec![], key: format!("wide:string:{}:n={}", what, n), lenient_err: false });
        }
    }
    out
}

/// Depth / chain-length ladder: the value of operator chains and nested constructs at sizes
/// around 16, 32, 64, 128, 256, 512 and 1024 (anything that counts depth, or treats a chain
/// as nesting, changes behaviour at such a size).
pub fn deep_cases() -> Vec<Case> {
    let mut out = Vec::new();
    let mut sizes: Vec<usize> = vec![21, 22];
    for k in [16usize, 32, 64, 100, 128, 200, 256, 500, 512, 1000, 1024] {
        sizes.extend([k - 1, k, k + 1]);
    }
    sizes.sort();
    sizes.dedup();
    for n in sizes {
        let progs: Vec<(&str, String)> = vec![
            ("sum-chain", format!("1{}", " + 1".repeat(n))),
            ("alternating-chain", format!("1000{}", " - 3 + 1".repeat(n / 2))),
            ("product-chain", format!("1{}", " * 2 * 0.5".repeat(n / 2))),
            ("and-chain", format!("true{}", " && true".repeat(n))),
            ("and-chain-false-last", format!("true{} && false", " && true".repeat(n))),
            ("or-chain", format!("false{} || true", " || false".repeat(n))),
            ("comparison-of-sums", format!("1{} == {}", " + 1".repeat(n), n + 1)),
            ("assignment-chain", format!("{}7 ; [a0, a{}]", (0..n).map(|i| format!("a{} = ", i)).collect::<String>(), n - 1)),
            ("statement-chain", format!("x = 0{} ; x", " ; x += 1".repeat(n))),
            ("paren-nest", format!("{}1{}", "(1 + ".repeat(n), ")".repeat(n))),
            ("list-nest", format!("{}1{}", "[".repeat(n), "]".repeat(n))),
            ("call-nest", format!("{}1{}", "max(".repeat(n), ")".repeat(n))),
            ("ternary-then-nest", format!("{}1{}", "true ? ".repeat(n), " : 2".repeat(n))),
            ("ternary-else-nest", format!("{}2", "false ? 1 : ".repeat(n))),
            ("minus-chain", format!("{}1", "- ".repeat(n))),
            ("not-chain", format!("{}true", "not ".repeat(n))),
            ("postfix-nest", format!("{}1{}", "(".repeat(n), " ++)".repeat(n))),
            ("not-in-nest", format!("{}1 in [1]{}", "1 not in [".repeat(n), "]".repeat(n))),
            ("map-nest", format!("{}1{}", "{1 : ".repeat(n), "}".repeat(n))),
        ];
        for (name, prog) in progs {
            out.push(Case { program: prog, bindings: vec![], key: format!("deep:{}:n={}", name, n), lenient_err: false });
        }
    }
    out
}

pub fn run_case(c: &Case, world: &World, stage: &str, out: &mut WorkerOut) {
    let case = format!("{}|{} with {}", stage, c.program, c.bindings.iter().map(|(k, v)| format!("{}={}", k, show_value(v))).collect::<Vec<_>>().join(" "));
    if c.lenient_err {
        // only "no panic, and if Ok then the model's value" is demanded
        let mut tmp = WorkerOut::default();
        compare(&c.program, &c.bindings, world, Cmp::Value, &c.key, &case, &mut tmp);
        let fails = std::mem::take(&mut tmp.fails);
        out.merge(tmp);
        for (k, (f, _)) in fails {
            if !k.starts_with("err-for-defined:") {
                out.fail(k, f.case, f.detail);
            }
        }
        return;
    }
    compare(&c.program, &c.bindings, world, Cmp::Value, &c.key, &case, out);
}

impl Prop for C03 {
    fn id(&self) -> &'static str {
        "C03"
    }
    fn plan(&self, tier: Tier) -> Plan {
        let n = cases(tier).len() as u64;
        Plan {
            stages: vec![Stage {
                name: "values".into(),
                len: n,
                chunk: (n / 20).max(500),
                timeout: Duration::from_secs(900),
                what: "operator / function applications over the value alphabet".into(),
            }],
            rule: format!(
                "every infix operator (32) x every ordered pair of V (|V|={}), operands as context variables and as literal text; every prefix / postfix operator x V; min/max/sum/mul x every argument list of length 0..3 over 9 values; AND/OR x every list of length 0..3 over {{true,false,1,None}}; conditional, list, map, membership over V^2; all depth-2 compositions over a sub-alphabet. \
                 Oracle: reference evaluator (equal value, numbers by value; or both Err). non-trivial = every case (each applies >= 1 operator), distinct = distinct (operator, operand-class) key",
                alphabet().len()
            ),
            assumptions: vec![
                "rust_decimal's checked arithmetic is the definition of decimal arithmetic (C09 checks exactness independently)".into(),
                "sum(), mul(), AND [], OR [] may return the identity element or an error (the properties do not fix it); everything else is compared exactly".into(),
            ],
            exhaustive: true,
            bound: format!("V^2 for every operator; compositions of depth 2 over {} values", tier.pick(alphabet_small().len(), (alphabet().len() + 1) / 2)),
            states_note: "states = (operator, operand tuple) cases; transitions = evaluations compared".into(),
        }
    }
    fn run(&self, tier: Tier, _stage: usize, a: u64, b: u64, out: &mut WorkerOut) {
        let world = World::builtin();
        let cs = cases(tier);
        for i in a..b {
            out.at(i);
            let c = &cs[i as usize];
            run_case(c, &world, "values", out);
            out.nontrivial.insert(hash64(&c.key));
            if i % 20011 == 3 {
                out.sample(format!("{} with {:?}", c.program, c.bindings.iter().map(|(k, v)| format!("{}={}", k, show_value(v))).collect::<Vec<_>>()));
            }
        }
        out.count("states", b - a);
        out.count("transitions", b - a);
    }
    fn case_text(&self, tier: Tier, _stage: usize, i: u64) -> String {
        let cs = cases(tier);
        let c = &cs[i as usize];
        format!("{} with {}", c.program, c.bindings.iter().map(|(k, v)| format!("{}={}", k, show_value(v))).collect::<Vec<_>>().join(" "))
    }
    fn min_outcomes(&self) -> usize {
        5
    }
}
