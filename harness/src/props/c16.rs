//! C16 — evaluations are deterministic and isolated from one another.
//! Every history of parse / execute calls up to a depth bound, over programs that assign,
//! fail midway, read names other programs assign and use every registry, on a fresh context
//! and on two long-lived contexts A and B. No de-duplication of histories: hidden state (a
//! memo table, a shared map) is exactly what must not be merged away. Every call is compared
//! with the reference evaluator, which has no state besides the context it is given; the
//! reference itself is tied to "the same call made alone" by running every operation as the
//! first engine call of a fresh process.
use super::vals::{context_vars, model_vars, show_value};
use crate::core::*;
use crate::engine::{conv, guarded, Res};
use crate::gen::mixed_radix;
use crate::model::eval::{self, HFn, MBind, MCtx, World};
use crate::model::parse::{self, Ast};
use expression_engine::{parse_expression, Context, ExprAST, Value};
use rust_decimal::Decimal;
use std::sync::Arc;
use std::time::Duration;

pub struct C16;

pub const PROGRAMS: &[&str] = &[
    "1 + 2 * 3",
    "x = 5 ; x",
    "x += 1 ; x",
    "y = x ; [x, y]",
    "x",
    "min(x, 2) + max(1, 2)",
    "x = 1 ; y = 'a' + 1 ; z = 3",
    "z = [x, y, z] ; z",
    "x = x ? 1 : 2",
    "nofn()",
    "x in [1, 5, 6]",
    "- x ++",
    "t = 'txt' ; t beginWith 't' && not false",
    "cfn() + 1",
    "plus = 3 ; plus",
    "",
    "2 plus 3",
    "x = 2 plus 3 ; x",
    // programs that fail to parse, shallow and deeply nested
    "x = [y, (z]",
    "((((((((((((((((((((((((((((((((((((((((1",
    "f(g(h([{1 : (2 + ",
    "((((((((((((((((((((((((((((((((((((((((1))))))))))))))))))))))))))))))))))))))))",
    // a registered function that panics: the evaluation fails midway, nothing else may notice
    "x = 4 ; y = boom(x) ; z = 5",
    // grouping depends on the precedence `plus` is registered with
    "2 * 3 plus 4",
    // a word that becomes an operator whose name is short in characters and long in bytes
    "1 \u{4e0d}\u{5305}\u{542b}\u{4e8e} 2",
    // evaluations that fail half-way through an aggregate / a list / an argument list (whatever
    // scratch state they used must not reach the next evaluation)
    "sum(79228162514264337593543950335, 1)",
    "[1, 2, 3 + 'x']",
    "min(100, 200, ! 5) ; sum(1, 2)",
    "mul(2, 3) + sum(4, 5) + max(6, 7) ; [8, 9]",
    // names that differ in letter case only are different names (and an unbound one reads as None)
    "Total = 1 ; total = 2 ; [TOTAL, Total, total, X, x]",
];

/// programs used in the histories that contain a registration
const REG_PROGRAMS: &[usize] = &[14, 16, 17, 23];
/// register `plus` (addition, precedence 110)
const REGISTER: u64 = u64::MAX;
/// the same registration made by another (spawned and joined) thread
const REGISTER_T: u64 = u64::MAX - 1;
/// re-register `plus` as multiplication at precedence 125
const REREG: u64 = u64::MAX - 2;
const REREG_T: u64 = u64::MAX - 3;
/// replace the built-in function `max` (possibly as the very first engine call of the process)
const REGMAX: u64 = u64::MAX - 4;
/// register the infix operator of program 24 (4 characters, 12 bytes)
const REG_CJK: u64 = u64::MAX - 5;
/// register an unrelated prefix operator with a long ASCII name
const REG_LONG: u64 = u64::MAX - 6;

fn is_reg(op: u64) -> bool {
    op >= REG_LONG
}

fn register_plus(world: &mut World, op: u64) {
    use crate::model::lex::InfixInfo;
    if op == REG_CJK {
        use expression_engine::{InfixOpAssociativity, InfixOpType};
        expression_engine::register_infix_op("\u{4e0d}\u{5305}\u{542b}\u{4e8e}", 110, InfixOpType::CALC, InfixOpAssociativity::LEFT, Arc::new(|a, b| Ok(Value::Number(a.decimal()? - b.decimal()?))));
        world.ops.infix.insert("\u{4e0d}\u{5305}\u{542b}\u{4e8e}".into(), InfixInfo { prec: 110, left: true, setter: false });
        let h: HFn = Arc::new(|a| match (&a[0], &a[1]) {
            (Value::Number(x), Value::Number(y)) => Ok(Value::Number(x - y)),
            _ => Err(eval::EErr::Type),
        });
        world.infix.insert("\u{4e0d}\u{5305}\u{542b}\u{4e8e}".into(), h);
        return;
    }
    if op == REG_LONG {
        expression_engine::register_prefix_op("an_unrelated_prefix_operator_with_a_long_name", Arc::new(|v| Ok(v)));
        world.ops.prefix.insert("an_unrelated_prefix_operator_with_a_long_name".into());
        let h: HFn = Arc::new(|a| Ok(a[0].clone()));
        world.prefix.insert("an_unrelated_prefix_operator_with_a_long_name".into(), h);
        return;
    }
    if op == REGMAX {
        expression_engine::register_function("max", Arc::new(|_| Ok(Value::Number(Decimal::from(99)))));
        let h: HFn = Arc::new(|_| Ok(Value::Number(Decimal::from(99))));
        world.functions.insert("max".into(), h);
        return;
    }
    use expression_engine::{InfixOpAssociativity, InfixOpType};
    let mul = op == REREG || op == REREG_T;
    let prec = if mul { 125 } else { 110 };
    let reg = move || {
        expression_engine::register_infix_op(
            "plus",
            prec,
            InfixOpType::CALC,
            InfixOpAssociativity::LEFT,
            if mul { Arc::new(|a, b| Ok(Value::Number(a.decimal()? * b.decimal()?))) } else { Arc::new(|a, b| Ok(Value::Number(a.decimal()? + b.decimal()?))) },
        )
    };
    if op == REGISTER_T || op == REREG_T {
        std::thread::spawn(reg).join().expect("registration thread");
    } else {
        reg();
    }
    world.ops.infix.insert("plus".into(), InfixInfo { prec, left: true, setter: false });
    let h: HFn = Arc::new(move |a| match (&a[0], &a[1]) {
        (Value::Number(x), Value::Number(y)) => Ok(Value::Number(if mul { x * y } else { x + y })),
        _ => Err(eval::EErr::Type),
    });
    world.infix.insert("plus".into(), h);
}

/// histories of <= 3 steps with exactly one registration, other steps over REG_PROGRAMS x {parse, execute-fresh, exec-on-A}
fn reg_histories() -> Vec<Vec<u64>> {
    let mut ops = Vec::new();
    for p in REG_PROGRAMS {
        for k in 0..3 {
            ops.push((*p * KINDS.len() + k) as u64);
        }
    }
    let mut v = vec![vec![REGISTER]];
    for r in [REGISTER, REGISTER_T] {
        for a in &ops {
            v.push(vec![r, *a]);
            v.push(vec![*a, r]);
            for b in &ops {
                v.push(vec![r, *a, *b]);
                v.push(vec![*a, r, *b]);
                v.push(vec![*a, *b, r]);
                for c in &ops {
                    v.push(vec![*a, r, *b, *c]);
                    v.push(vec![*a, *b, r, *c]);
                }
            }
        }
    }
    // a built-in function replaced before / between / after evaluations that use it (program 5
    // calls min and max)
    {
        let uses: Vec<u64> = (0..3).map(|k| (5 * KINDS.len() + k) as u64).collect();
        v.push(vec![REGMAX]);
        for a in &uses {
            v.push(vec![REGMAX, *a]);
            v.push(vec![*a, REGMAX]);
            for b in &uses {
                v.push(vec![REGMAX, *a, *b]);
                v.push(vec![*a, REGMAX, *b]);
                for c in ops.iter().chain(uses.iter()) {
                    v.push(vec![*c, *a, REGMAX, *b]);
                    v.push(vec![REGMAX, *c, *a, *b]);
                }
            }
        }
    }
    // an operator registered, used, then an unrelated registration, used again: the result may
    // not depend on the unrelated registration (program 24 uses the operator)
    {
        let uses: Vec<u64> = (0..3).map(|k| (24 * KINDS.len() + k) as u64).collect();
        for a in &uses {
            v.push(vec![REG_CJK, *a]);
            v.push(vec![*a, REG_CJK, *a]);
            v.push(vec![REG_LONG, REG_CJK, *a]);
            for b in &uses {
                v.push(vec![REG_CJK, *a, REG_LONG, *b]);
                v.push(vec![*a, REG_CJK, *b, REG_LONG, *a]);
            }
        }
    }
    // a registration followed by a re-registration with another handler and precedence
    // (same thread / another thread), evaluations before, between and after
    for (r1, r2) in [(REGISTER, REREG), (REGISTER, REREG_T), (REGISTER_T, REREG), (REGISTER_T, REREG_T)] {
        v.push(vec![r1, r2]);
        for a in &ops {
            v.push(vec![r1, r2, *a]);
            v.push(vec![r1, *a, r2]);
            for b in &ops {
                v.push(vec![r1, *a, r2, *b]);
                v.push(vec![*a, r1, r2, *b]);
                if r1 == REGISTER {
                    for c in &ops {
                        v.push(vec![*a, r1, *b, r2, *c]);
                    }
                }
            }
        }
    }
    v
}

const KINDS: &[&str] = &["parse", "execute-fresh", "exec-on-A", "exec-on-B"];

fn n_ops() -> u64 {
    (PROGRAMS.len() * KINDS.len()) as u64
}

fn op_text(op: u64) -> String {
    match op {
        REGISTER => return "register_infix_op(plus,110,LEFT,add)".into(),
        REGISTER_T => return "[other thread] register_infix_op(plus,110,LEFT,add)".into(),
        REREG => return "register_infix_op(plus,125,LEFT,mul)".into(),
        REREG_T => return "[other thread] register_infix_op(plus,125,LEFT,mul)".into(),
        REGMAX => return "register_function(max, constant 99)".into(),
        REG_CJK => return "register_infix_op(<4 CJK characters>,110,LEFT,sub)".into(),
        REG_LONG => return "register_prefix_op(an_unrelated_prefix_operator_with_a_long_name)".into(),
        _ => {}
    }
    format!("{}({:?})", KINDS[(op as usize) % KINDS.len()], PROGRAMS[(op as usize) / KINDS.len()])
}

fn engine_ctx(with_fn: bool) -> Context {
    let mut c = Context::new();
    if with_fn {
        c.set_func("cfn", Arc::new(|_| Ok(Value::Number(Decimal::from(9)))));
    }
    c
}

fn model_ctx(with_fn: bool) -> MCtx {
    let mut c = MCtx::new();
    if with_fn {
        let h: HFn = Arc::new(|_| Ok(Value::Number(Decimal::from(9))));
        c.insert("cfn".into(), MBind::Func(h));
    }
    c
}

fn canon(vars: &[(String, Option<Value>)]) -> String {
    vars.iter()
        .map(|(k, v)| match v {
            Some(v) => format!("{}={}", k, show_value(v)),
            None => format!("{}=<fn>", k),
        })
        .collect::<Vec<_>>()
        .join(";")
}

struct Sys {
    a: Context,
    b: Context,
    ma: MCtx,
    mb: MCtx,
    stored: Vec<Option<ExprAST<'static>>>,
    /// the reference AST of the same program at the time it was parsed
    stored_model: Vec<Option<Ast>>,
}

impl Sys {
    fn new() -> Sys {
        Sys { a: engine_ctx(true), b: engine_ctx(false), ma: model_ctx(true), mb: model_ctx(false), stored: (0..PROGRAMS.len()).map(|_| None).collect(), stored_model: (0..PROGRAMS.len()).map(|_| None).collect() }
    }
}

/// execute one operation on the engine and on the reference; report disagreement
fn step(sys: &mut Sys, op: u64, world: &World, model_asts: &[Result<Ast, parse::PErr>], history: &str, before: &str, stage: &str, out: &mut WorkerOut) {
    let pi = (op as usize) / KINDS.len();
    let kind = KINDS[(op as usize) % KINDS.len()];
    let prog: &'static str = PROGRAMS[pi];
    // (`history` is the ready-made case text "<stage>|<operations>": built once per history)
    let _ = stage;
    let case = history;
    out.evals += 1;
    out.count("validated", 1);
    out.count("transitions", 1);
    let key = format!("{}:after:{}", kind, before);
    if kind == "parse" {
        let r = guarded(|| parse_expression(prog).map_err(|e| format!("{:?}", e)));
        match (&model_asts[pi], r) {
            (Ok(m), Res::Ok(t)) => {
                if &conv(&t) != m {
                    out.fail(format!("parse-result:{}", key), case.to_string(), format!("parse of {:?} gives {:?}, alone it gives {:?}", prog, conv(&t), m));
                }
                sys.stored[pi] = Some(t);
                sys.stored_model[pi] = Some(m.clone());
                out.outcomes.insert("parsed".into());
            }
            (Err(_), Res::Err(_)) => {
                out.outcomes.insert("parse-error".into());
            }
            (m, r) => out.fail(format!("parse-result:{}", key), case.to_string(), format!("parse of {:?}: reference {:?}, engine {:?}", prog, m.is_ok(), r.class())),
        }
        return;
    }
    // evaluation: stored AST if this program was parsed earlier in the history, else parse now
    let (ectx, mctx): (&mut Context, &mut MCtx) = match kind {
        "exec-on-A" => (&mut sys.a, &mut sys.ma),
        "exec-on-B" => (&mut sys.b, &mut sys.mb),
        _ => {
            // fresh contexts are dropped after the call
            let mut fe = engine_ctx(false);
            let mut fm = model_ctx(false);
            let stored = sys.stored[pi].clone();
            let er = guarded(|| match stored {
                Some(t) => t.exec(&mut fe).map_err(|e| format!("{:?}", e)),
                // the public one-call entry point (the context handle is shared with `fe`)
                None => expression_engine::execute(prog, crate::engine::share(&fe)).map_err(|e| format!("{:?}", e)),
            });
            let mr = match (&sys.stored_model[pi], &model_asts[pi]) {
                (Some(a), _) => eval::eval(a, &mut fm, world).map_err(|_| ()),
                (None, Ok(a)) => eval::eval(a, &mut fm, world).map_err(|_| ()),
                (None, Err(_)) => Err(()),
            };
            compare_call(&mr, &er, &canon(&model_vars(&fm)), &canon(&context_vars(&fe)), &key, case, prog, out);
            return;
        }
    };
    let stored = sys.stored[pi].clone();
    let er = guarded(|| {
        let t = match stored {
            Some(t) => t,
            None => parse_expression(prog).map_err(|e| format!("parse: {:?}", e))?,
        };
        t.exec(ectx).map_err(|e| format!("{:?}", e))
    });
    let mr = match (&sys.stored_model[pi], &model_asts[pi]) {
        (Some(a), _) => eval::eval(a, mctx, world).map_err(|_| ()),
        (None, Ok(a)) => eval::eval(a, mctx, world).map_err(|_| ()),
        (None, Err(_)) => Err(()),
    };
    let (mc, ec) = (canon(&model_vars(mctx)), canon(&context_vars(ectx)));
    compare_call(&mr, &er, &mc, &ec, &key, case, prog, out);
}

#[allow(clippy::too_many_arguments)]
fn compare_call(mr: &Result<Value, ()>, er: &Res<Value>, mc: &str, ec: &str, key: &str, case: &str, prog: &str, out: &mut WorkerOut) {
    match (mr, er) {
        (Ok(a), Res::Ok(b)) if a == b => {
            out.outcomes.insert("value".into());
        }
        (Err(()), Res::Err(_)) => {
            out.outcomes.insert("error".into());
        }
        (Err(()), Res::Panic(m)) if prog.contains("boom(") && m.contains("boom handler") => {
            out.outcomes.insert("handler-panic-propagated".into());
        }
        (_, Res::Panic(m)) => {
            out.fail(format!("panic:{}", key), case, format!("{:?}: {}", prog, m));
            return;
        }
        (m, e) => {
            out.fail(format!("result:{}", key), case, format!("{:?} returns {:?} here; alone, on an equal context, it returns {:?}", prog, e, m.as_ref().map(show_value)));
            return;
        }
    }
    if mc != ec {
        out.fail(format!("context:{}", key), case, format!("{:?} leaves the context as {{{}}}; alone it leaves {{{}}}", prog, ec, mc));
    }
}

fn run_history(ops: &[u64], world: &World, model_asts: &[Result<Ast, parse::PErr>], stage: &str, out: &mut WorkerOut) {
    let mut world = world.clone();
    let mut model_asts: Vec<Result<Ast, parse::PErr>> = model_asts.to_vec();
    let (world, model_asts) = (&mut world, &mut model_asts);
    // long histories are named by their shape, not spelled out operation by operation
    let history_ops = if ops.len() > 40 {
        format!("{} x [{} ; {}] then {}", (ops.len() - KINDS.len()) / 2, op_text(ops[0]), op_text(ops[1]), ops[ops.len() - KINDS.len()..].iter().map(|o| op_text(*o)).collect::<Vec<_>>().join(" ; "))
    } else {
        ops.iter().map(|o| op_text(*o)).collect::<Vec<_>>().join(" ; ")
    };
    let history = format!("{}|{}", stage, history_ops);
    // (taken after the first call: the first call of a process fills the registries)
    let mut snap0 = None;
    let mut sys = Sys::new();
    let mut before = String::from("nothing");
    for (i, op) in ops.iter().enumerate() {
        if is_reg(*op) {
            register_plus(world, *op);
            *model_asts = PROGRAMS.iter().map(|p| parse::parse(p, &world.ops)).collect();
            // an AST parsed before the registration keeps its meaning; only new parses change
            snap0 = safe_snapshot();
            before = if i == 0 { "register".to_string() } else if i <= 6 { format!("{},register", before) } else { before };
            out.count("transitions", 1);
            continue;
        }
        // a stored AST was parsed under the table of its time: re-derive the reference AST
        // from the engine-independent reference parser at *that* time (kept in stored_model)
        step(&mut sys, *op, world, model_asts, &history, &before, stage, out);
        if snap0.is_none() {
            snap0 = safe_snapshot();
        }
        let k = KINDS[(*op as usize) % KINDS.len()];
        if i == 0 {
            before = k.to_string();
        } else if i < 6 {
            before = format!("{},{}", before, k);
        } else if i == 6 {
            // (long histories: the key names the first steps only)
            before = format!("{},...", before);
        }
    }
    // the other long-lived context must be untouched by calls that did not name it, and the
    // registries by everything
    if canon(&context_vars(&sys.a)) != canon(&model_vars(&sys.ma)) || canon(&context_vars(&sys.b)) != canon(&model_vars(&sys.mb)) {
        out.fail(format!("context:cross-talk:{}", before), history.clone(), format!("A={{{}}} B={{{}}} expected A={{{}}} B={{{}}}", canon(&context_vars(&sys.a)), canon(&context_vars(&sys.b)), canon(&model_vars(&sys.ma)), canon(&model_vars(&sys.mb))));
    }
    match safe_snapshot() {
        None => out.fail(format!("registry-unusable:{}", before), history.clone(), "a global registry cannot be read any more (poisoned lock) after these calls"),
        now => {
            if now != snap0 {
                out.fail(format!("registry-changed:{}", before), history.clone(), "parse / exec changed the contents of a global registry");
            }
        }
    }
    out.nontrivial.insert(hash64(&format!("{}|{}|{}", canon(&context_vars(&sys.a)), canon(&context_vars(&sys.b)), before)));
}

fn safe_snapshot() -> Option<expression_engine::verif_hooks::Snapshot> {
    match guarded(|| Ok(expression_engine::verif_hooks::snapshot())) {
        Res::Ok(s) => Some(s),
        _ => None,
    }
}

/// repetitions in the long histories: above the usual capacity constants (256, 500, 512,
/// 1000, 1024; thorough: 4096, 65536) so that anything that fills up or leaks per call shows
fn long_reps(tier: Tier) -> u64 {
    tier.pick(1100, 66000)
}

// ---------------------------------------------------------------------------
// concurrent evaluations at depth: handler-point interleavings

const DEPTH_SHAPES: &[&str] = &["left-chain", "paren-nest", "list-nest", "call-nest", "ternary-nest"];

/// a program whose evaluation is `d` levels deep when it reaches its only leaf `p()`
fn deep_program(shape: &str, d: usize) -> String {
    match shape {
        "left-chain" => format!("p(){}", " + 1".repeat(d)),
        "paren-nest" => format!("{}p(){}", "(1 + ".repeat(d), ")".repeat(d)),
        "list-nest" => format!("{}p(){}", "[".repeat(d), "]".repeat(d)),
        "call-nest" => format!("{}p(){}", "max(".repeat(d), ")".repeat(d)),
        _ => format!("{}p(){}", "true ? ".repeat(d), " : 0".repeat(d)),
    }
}

fn depth_ladder(tier: Tier) -> Vec<usize> {
    // doubling: for any budget L in [3, 2 * max) some d has d <= L < 2d, i.e. one evaluation
    // alone fits and two at once do not
    let top = tier.pick(768, 3072);
    let mut v = vec![3usize];
    while *v.last().unwrap() < top {
        v.push(v.last().unwrap() * 2);
    }
    v
}

fn depth_cases(tier: Tier) -> Vec<(usize, usize, usize)> {
    let mut v = Vec::new();
    for a in 0..DEPTH_SHAPES.len() {
        for b in 0..DEPTH_SHAPES.len() {
            for d in depth_ladder(tier) {
                v.push((a, b, d));
            }
        }
    }
    v
}

struct Gate {
    st: std::sync::Mutex<(bool, bool)>, // (reached, go)
    cv: std::sync::Condvar,
}

impl Gate {
    fn new(open: bool) -> Arc<Gate> {
        Arc::new(Gate { st: std::sync::Mutex::new((false, open)), cv: std::sync::Condvar::new() })
    }
    fn open(&self) {
        self.st.lock().unwrap().1 = true;
        self.cv.notify_all();
    }
    /// wait until the evaluation reached its leaf or `done` says it ended without reaching it
    fn wait_reached(&self, done: &std::sync::atomic::AtomicBool) -> bool {
        let t0 = std::time::Instant::now();
        let mut g = self.st.lock().unwrap();
        loop {
            if g.0 {
                return true;
            }
            if done.load(std::sync::atomic::Ordering::SeqCst) || t0.elapsed() > Duration::from_secs(8) {
                return false;
            }
            g = self.cv.wait_timeout(g, Duration::from_millis(2)).unwrap().0;
        }
    }
}

/// evaluate `prog` on a fresh context whose `p` parks at the gate; returns the shown result
fn gated_eval(prog: String, gate: Arc<Gate>, done: Arc<std::sync::atomic::AtomicBool>) -> std::thread::JoinHandle<String> {
    std::thread::Builder::new()
        .stack_size(256 << 20)
        .spawn(move || {
            let mut ctx = Context::new();
            let g = gate.clone();
            ctx.set_func(
                "p",
                Arc::new(move |_| {
                    let mut st = g.st.lock().unwrap();
                    st.0 = true;
                    g.cv.notify_all();
                    while !st.1 {
                        st = g.cv.wait(st).unwrap();
                    }
                    Ok(Value::Number(Decimal::from(7)))
                }),
            );
            let r = guarded(|| {
                let t = parse_expression(&prog).map_err(|e| format!("parse: {:?}", e))?;
                t.exec(&mut ctx).map_err(|e| format!("{:?}", e))
            });
            done.store(true, std::sync::atomic::Ordering::SeqCst);
            match r {
                Res::Ok(v) => format!("Ok({})", show_value(&v)),
                Res::Err(e) => format!("Err({})", e.chars().take(80).collect::<String>()),
                Res::Panic(m) => format!("PANIC({})", m.chars().take(80).collect::<String>()),
            }
        })
        .expect("spawn")
}

/// One case: evaluations A and B, each `d` deep at its leaf. Schedules at handler-call
/// granularity (each evaluation has one handler point, its leaf): alone, A inside B (A parked
/// at its leaf while B runs from start to end), both parked at their leaves at once and
/// released in either order. Every result must equal the evaluation made alone.
fn run_depth_case(case: (usize, usize, usize), out: &mut WorkerOut) {
    use std::sync::atomic::AtomicBool;
    let (sa, sb, d) = case;
    let pa = deep_program(DEPTH_SHAPES[sa], d);
    let pb = deep_program(DEPTH_SHAPES[sb], d);
    let label = format!("concurrent-depth|A={} B={} depth={}", DEPTH_SHAPES[sa], DEPTH_SHAPES[sb], d);
    let alone = |p: &String| gated_eval(p.clone(), Gate::new(true), Arc::new(AtomicBool::new(false))).join().unwrap_or_else(|_| "thread died".into());
    let (alone_a, alone_b) = (alone(&pa), alone(&pb));
    out.evals += 2;
    let mut check = |what: &str, got_a: &str, got_b: &str, out: &mut WorkerOut| {
        out.evals += 1;
        out.count("validated", 1);
        out.count("transitions", 1);
        if got_a == alone_a && got_b == alone_b {
            out.outcomes.insert("concurrent-same-as-alone".into());
        } else {
            let class = if got_a.starts_with("PANIC") || got_b.starts_with("PANIC") { "panic" } else { "result" };
            out.fail(
                format!("concurrent-depth:{}:{}:A={}:B={}", class, what, DEPTH_SHAPES[sa], DEPTH_SHAPES[sb]),
                format!("{} schedule={}", label, what),
                format!("alone: A -> {}, B -> {}; in this schedule: A -> {}, B -> {}", alone_a, alone_b, got_a, got_b),
            );
        }
    };
    // schedule 1: A parked at its leaf, B runs from start to end, then A resumes
    {
        let (ga, da) = (Gate::new(false), Arc::new(AtomicBool::new(false)));
        let ha = gated_eval(pa.clone(), ga.clone(), da.clone());
        ga.wait_reached(&da);
        let rb = alone(&pb);
        ga.open();
        let ra = ha.join().unwrap_or_else(|_| "thread died".into());
        check("B-inside-A", &ra, &rb, out);
    }
    // schedules 2, 3: both parked at their leaves at once, released A first / B first
    for a_first in [true, false] {
        let (ga, da) = (Gate::new(false), Arc::new(AtomicBool::new(false)));
        let (gb, db) = (Gate::new(false), Arc::new(AtomicBool::new(false)));
        let ha = gated_eval(pa.clone(), ga.clone(), da.clone());
        ga.wait_reached(&da);
        let hb = gated_eval(pb.clone(), gb.clone(), db.clone());
        gb.wait_reached(&db);
        let (ra, rb);
        if a_first {
            ga.open();
            ra = ha.join().unwrap_or_else(|_| "thread died".into());
            gb.open();
            rb = hb.join().unwrap_or_else(|_| "thread died".into());
        } else {
            gb.open();
            rb = hb.join().unwrap_or_else(|_| "thread died".into());
            ga.open();
            ra = ha.join().unwrap_or_else(|_| "thread died".into());
        }
        check(if a_first { "both-at-leaf,A-released-first" } else { "both-at-leaf,B-released-first" }, &ra, &rb, out);
    }
    // and afterwards each alone again
    let (again_a, again_b) = (alone(&pa), alone(&pb));
    check("alone-afterwards", &again_a, &again_b, out);
    out.count("states", 1);
    out.nontrivial.insert(hash64(&label));
}

fn depth(tier: Tier) -> u32 {
    tier.pick(3, 4)
}

fn history_of(i: u64, tier: Tier) -> Vec<u64> {
    // lengths 1..=depth laid out one after the other
    let n = n_ops();
    let mut i = i;
    let mut l = 1u32;
    loop {
        let block = n.pow(l);
        if i < block || l == depth(tier) {
            break;
        }
        i -= block;
        l += 1;
    }
    mixed_radix(i, &vec![n; l as usize])
}

fn n_histories(tier: Tier) -> u64 {
    (1..=depth(tier)).map(|l| n_ops().pow(l)).sum()
}

impl Prop for C16 {
    fn id(&self) -> &'static str {
        "C16"
    }
    fn plan(&self, tier: Tier) -> Plan {
        let n = n_histories(tier);
        let pairs = n_ops() + n_ops() * n_ops();
        Plan {
            stages: vec![
                Stage { name: "fresh".into(), len: pairs, chunk: 1, timeout: Duration::from_secs(60), what: "every single operation and every ordered pair of operations as the first engine calls of a fresh process".into() },
                Stage { name: "registration".into(), len: reg_histories().len() as u64, chunk: 1, timeout: Duration::from_secs(60), what: "histories of <= 5 steps with one register_infix_op at every position, or a registration followed by a re-registration with another handler and precedence, each made by the calling thread or by another (joined) thread; each history in a fresh process (a lexeme probed before it becomes an operator must be an operator afterwards; nothing remembered from before a registration may survive it)".into() },
                Stage { name: "long".into(), len: (PROGRAMS.len() * PROGRAMS.len()) as u64, chunk: 40, timeout: Duration::from_secs(600), what: "for every ordered pair (p, q): N repetitions (1100 quick / 66000 thorough) of parse(p) / execute(p) followed by every operation on q (capacity / accumulation effects; single long histories, not exhaustive)".into() },
                Stage { name: "histories".into(), len: n, chunk: (n / 64).max(500), timeout: Duration::from_secs(1800), what: format!("every history of <= {} operations, in process, no de-duplication", depth(tier)) },
                Stage { name: "concurrent-depth".into(), len: depth_cases(tier).len() as u64, chunk: 10, timeout: Duration::from_secs(900), what: "two evaluations on separate contexts and threads, each d levels deep (5 nesting shapes x 5, d doubling from 3) when it reaches its single context-function leaf; all schedules at handler-call granularity (B inside A, both at their leaves released in either order); every result equals the evaluation made alone, before and afterwards".into() },
            ],
            rule: format!(
                "operations = {{parse, execute on a fresh context, exec on long-lived context A, exec on long-lived context B}} x {} programs (assigning, failing midway, reading names other programs assign, using functions / prefix / infix / postfix registries, a context function bound only in A, a name that other tests register as operator, the empty program); a program parsed earlier in a history is evaluated from that stored AST. \
                 All {} histories of <= {} operations, plus every single operation and ordered pair as the first calls of a fresh process. Oracle: every call's result and resulting context equal the reference evaluator's on equal contexts (= the call made alone), A and B never influence each other, the registry snapshot (names, precedences, handler identities) never changes. distinct = distinct (final A, final B, operation-kind sequence)",
                PROGRAMS.len(),
                n,
                depth(tier)
            ),
            assumptions: vec![
                "the reference evaluator is the 'alone' semantics; stage 'fresh' ties it to the engine by running each operation as the first call of a new process".into(),
                "leakage that needs more than the depth bound to show (a cache with larger capacity) is out of bound".into(),
            ],
            exhaustive: true,
            bound: format!("depth {} over {} operations", depth(tier), n_ops()),
            states_note: "states = histories executed (each a distinct path; not merged); transitions = calls compared; global registry states observed must be 1".into(),
        }
    }
    fn run(&self, tier: Tier, stage: usize, a: u64, b: u64, out: &mut WorkerOut) {
        let mut world = World::builtin();
        // registered once per worker process, before anything else (a registration, not an evaluation)
        expression_engine::register_function("boom", Arc::new(|_| panic!("boom handler")));
        let boom: HFn = Arc::new(|_| Err(eval::EErr::Handler));
        world.functions.insert("boom".into(), boom);
        let model_asts: Vec<Result<Ast, parse::PErr>> = PROGRAMS.iter().map(|p| parse::parse(p, &world.ops)).collect();
        if stage == 0 {
            let n = n_ops();
            for i in a..b {
            out.at(i);
                let ops = if i < n { vec![i] } else { vec![(i - n) / n, (i - n) % n] };
                run_history(&ops, &world, &model_asts, "fresh", out);
                out.count("states", 1);
                out.sample(ops.iter().map(|o| op_text(*o)).collect::<Vec<_>>().join(" ; "));
            }
            return;
        }
        if stage == 4 {
            let cases = depth_cases(tier);
            for i in a..b {
                out.at(i);
                run_depth_case(cases[i as usize], out);
            }
            return;
        }
        if stage == 2 {
            for i in a..b {
                out.at(i);
                let (p, q) = ((i as usize) / PROGRAMS.len(), (i as usize) % PROGRAMS.len());
                let mut ops = Vec::new();
                for r in 0..long_reps(tier) {
                    ops.push((p * KINDS.len() + (r % 2) as usize) as u64);
                }
                for k in 0..KINDS.len() {
                    ops.push((q * KINDS.len() + k) as u64);
                }
                run_history(&ops, &world, &model_asts, "long", out);
                out.count("states", 1);
            }
            return;
        }
        if stage == 1 {
            let hs = reg_histories();
            for i in a..b {
            out.at(i);
                run_history(&hs[i as usize], &world, &model_asts, "registration", out);
                out.count("states", 1);
                out.sample(hs[i as usize].iter().map(|o| op_text(*o)).collect::<Vec<_>>().join(" ; "));
            }
            return;
        }
        for i in a..b {
            out.at(i);
            let ops = history_of(i, tier);
            run_history(&ops, &world, &model_asts, "histories", out);
            if i % 40009 == 7 {
                out.sample(ops.iter().map(|o| op_text(*o)).collect::<Vec<_>>().join(" ; "));
            }
        }
        out.count("states", b - a);
    }
    fn case_text(&self, tier: Tier, stage: usize, i: u64) -> String {
        let n = n_ops();
        if stage == 4 {
            let (a, b, d) = depth_cases(tier)[i as usize];
            return format!("A={} B={} depth={}", DEPTH_SHAPES[a], DEPTH_SHAPES[b], d);
        }
        if stage == 2 {
            return format!("{} x {:?} then {:?}", long_reps(tier), PROGRAMS[(i as usize) / PROGRAMS.len()], PROGRAMS[(i as usize) % PROGRAMS.len()]);
        }
        if stage == 1 {
            return reg_histories()[i as usize].iter().map(|o| op_text(*o)).collect::<Vec<_>>().join(" ; ");
        }
        let ops = if stage == 0 {
            if i < n {
                vec![i]
            } else {
                vec![(i - n) / n, (i - n) % n]
            }
        } else {
            history_of(i, tier)
        };
        ops.iter().map(|o| op_text(*o)).collect::<Vec<_>>().join(" ; ")
    }
    fn min_outcomes(&self) -> usize {
        3
    }
}
