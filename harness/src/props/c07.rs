//! C07 — each subexpression runs once, left to right; conditionals are lazy; evaluation
//! stops at the first error. Every tree of <= 3 inner nodes over all evaluating node kinds
//! with observable (logging) leaves and handlers, un-faulted and with an error injected at
//! every handler invocation; the call log must equal the reference evaluator's.
use super::c02::shape_key;
use super::effects::*;
use crate::core::*;
use crate::gen::show;
use std::time::Duration;

pub struct C07;

fn level(tier: Tier) -> usize {
    tier.pick(1, 2)
}

fn max_nodes(tier: Tier) -> usize {
    tier.pick(3, 4)
}

/// `wx` is a context function that adds 10 to the variable `xv` of the context it is evaluated
/// in (through the shared handle) and returns 100; `xv` starts at 1. Expected values follow
/// from "left to right, each once": a read of `xv` sees exactly the calls of `wx` to its left.
fn mutating_function_cases(out: &mut WorkerOut) {
    use expression_engine::{Context, Value};
    use rust_decimal::Decimal;
    let n = |i: i64| Value::Number(Decimal::from(i));
    let cases: Vec<(&str, Value)> = vec![
        ("wx + xv", n(111)),
        ("xv + wx", n(101)),
        ("wx() + xv", n(111)),
        ("xv + wx() + xv", n(112)),
        ("[xv, wx, xv]", Value::List(vec![n(1), n(100), n(11)])),
        ("max(wx, xv)", n(100)),
        ("min(xv, wx, xv)", n(1)),
        ("{xv : wx, wx : xv}", Value::Map(vec![(n(1), n(100)), (n(100), n(21))])),
        ("wx ; xv", n(11)),
        ("xv = xv + wx ; xv", n(101)),
        ("xv += wx ; xv", n(101)),
        ("y = wx ; xv + y", n(111)),
        ("true ? wx + xv : 0", n(111)),
        ("xv in [wx, xv]", Value::Bool(false)),
        ("11 in [wx, xv]", Value::Bool(true)),
        ("- wx + xv", n(-89)),
        ("xv < wx && xv > 10", Value::Bool(true)),
        ("wx + wx + xv", n(221)),
    ];
    for (prog, want) in cases {
        for entry in ["parse+exec", "execute"] {
            let mut ctx = Context::new();
            ctx.set_variable("xv", n(1));
            let handle = ctx.0.clone();
            ctx.set_func(
                "wx",
                std::sync::Arc::new(move |_| {
                    let mut own = Context::new();
                    own.0 = handle.clone();
                    let cur = own.get_variable("xv").and_then(|v| v.decimal().ok()).unwrap_or_default();
                    own.set_variable("xv", Value::Number(cur + Decimal::from(10)));
                    Ok(Value::Number(Decimal::from(100)))
                }),
            );
            out.evals += 1;
            let got = if entry == "execute" {
                crate::engine::execute(prog, crate::engine::share(&ctx))
            } else {
                crate::engine::guarded(|| expression_engine::parse_expression(prog).and_then(|t| t.exec(&mut ctx)).map_err(|e| format!("{:?}", e)))
            };
            if got == crate::engine::Res::Ok(want.clone()) {
                out.count("validated", 1);
                out.outcomes.insert("mutating-ok".into());
            } else {
                out.fail(format!("order:mutating-function:{}", prog.replace(' ', "")), format!("mutating-function|{:?} via {}", prog, entry), format!("expected {} got {:?}", super::vals::show_value(&want), got));
            }
        }
    }
    out.nontrivial.insert(hash64("mutating"));
    out.count("states", 1);
}

impl Prop for C07 {
    fn id(&self) -> &'static str {
        "C07"
    }
    fn plan(&self, tier: Tier) -> Plan {
        let n = Programs::new(level(tier)).len();
        Plan {
            stages: vec![Stage {
                name: "mutating-function".into(),
                len: 1,
                chunk: 1,
                timeout: Duration::from_secs(120),
                what: "a context function that re-binds a variable of its own context (xv += 10, returns 100) next to reads of that variable, in 16 operand / element / entry / statement / assignment positions: each read sees exactly the calls to its left".into(),
            }, Stage {
                name: "effects".into(),
                len: n,
                chunk: (n / 20).max(50),
                timeout: Duration::from_secs(1200),
                what: "program x (no fault | Err at the k-th handler invocation, every k)".into(),
            }],
            rule: format!(
                "every tree with <= 3 inner nodes over 16 node kinds (at the thorough tier also every tree with exactly 4 inner nodes over the 10 logging / assigning kinds; this run: max {} nodes) (built-in and registered logging infix, `&&`, `=`, `+=`, registered setter, built-in and logging prefix / postfix, conditional, context call, global call, list, map) in 6 leaf styles (context-function calls, bare-name context functions, mixed with true / false conditions, identical sibling subtrees, literals only so that only operator handlers are observable), plus all two-statement chains; \
                 each un-faulted program is also run through execute() twice and as one parsed AST evaluated twice (fresh equal contexts), all four must show the reference effects; for each program every handler invocation index k gets an injected Err. Oracle: call log (names and argument values), result and final bindings equal the reference evaluator's (left-to-right post-order, selected branch only, truncated at the fault). non-trivial = >= 1 handler invocation, distinct = distinct program",
                max_nodes(tier)
            ),
            assumptions: vec!["every parent/child kind pair at every child position appears from 2 inner nodes on".into()],
            exhaustive: true,
            bound: format!("<= {} inner nodes; every fault position", max_nodes(tier)),
            states_note: "states = programs; transitions = (program, fault position) executions compared".into(),
        }
    }
    fn run(&self, tier: Tier, stage: usize, a: u64, b: u64, out: &mut WorkerOut) {
        if stage == 0 {
            out.at(0);
            mutating_function_cases(out);
            return;
        }
        let world = install();
        let progs = Programs::new(level(tier));
        for i in a..b {
            out.at(i);
            let ast = &progs.get(i);
            let text = print_program(ast, &world);
            let key = shape_key(ast, &world.ops);
            let case = format!("effects|{}", show(&text));
            match crate::model::parse::parse(&text, &world.ops) {
                Ok(back) if &back == ast => {}
                other => {
                    out.fail("generator:model-roundtrip", case, format!("model parses its own print of {:?} as {:?}", ast, other));
                    continue;
                }
            }
            let (_, m, _) = compare_run(ast, &text, &world, Fault::None, 0, &key, &case, out);
            // the other entry points (execute() twice, a stored AST evaluated twice) must show the
            // same effects as the reference, every time
            for (entry, r) in run_engine_entry_points(&text) {
                out.evals += 1;
                let same_result = match (&m.result, &r.result) {
                    (Ok(w), crate::engine::Res::Ok(g)) => w == g,
                    (Err(_), crate::engine::Res::Err(_)) => true,
                    _ => false,
                };
                let ek = entry.split(',').next().unwrap_or(entry).replace(' ', "-");
                if r.log != m.log {
                    out.fail(format!("log:entry-point:{}:{}", ek, key), format!("{} via {}", case, entry), format!("{:?} through {}: expected log {:?}, engine log {:?}", text, entry, m.log, r.log));
                } else if !same_result {
                    out.fail(format!("result:entry-point:{}:{}", ek, key), format!("{} via {}", case, entry), format!("{:?} through {}: expected {:?} got {:?}", text, entry, m.result.as_ref().map(super::vals::show_value), r.result));
                } else if r.vars.len() != m.vars.len() || r.vars.iter().zip(&m.vars).any(|(a, b)| a != b) {
                    out.fail(format!("context:entry-point:{}:{}", ek, key), format!("{} via {}", case, entry), format!("{:?} through {}: bindings differ from the reference", text, entry));
                }
            }
            // hand-assembled trees: statement chains put together from parsed pieces (a chain
            // inside a chain, a chain of one, a chain as list element / call argument) evaluate
            // their parts in the written order too
            if i % 7 == 0 {
                let j = (i * 31 + 5) % progs.len();
                let other = progs.get(j);
                let other_text = print_program(&other, &world);
                let built_model = crate::model::parse::Ast::Stmt(vec![ast.clone(), crate::model::parse::Ast::Stmt(vec![other.clone(), ast.clone()]), crate::model::parse::Ast::List(vec![other.clone()])]);
                let mm = run_model(&built_model, &world, Fault::None, 0);
                let built = crate::engine::guarded(|| {
                    let a = expression_engine::parse_expression(&text).map_err(|e| format!("parse: {:?}", e))?;
                    let b = expression_engine::parse_expression(&other_text).map_err(|e| format!("parse: {:?}", e))?;
                    Ok(expression_engine::ExprAST::Stmt(vec![a.clone(), expression_engine::ExprAST::Stmt(vec![b.clone(), a]), expression_engine::ExprAST::List(vec![b])]))
                });
                if let crate::engine::Res::Ok(tree) = built {
                    let mut ctx = engine_context();
                    arm(Fault::None, 0);
                    let r = crate::engine::guarded(|| tree.exec(&mut ctx).map_err(|e| format!("{:?}", e)));
                    let log = take_log();
                    out.evals += 1;
                    let same_result = match (&mm.result, &r) {
                        (Ok(w), crate::engine::Res::Ok(g)) => w == g,
                        (Err(_), crate::engine::Res::Err(_)) => true,
                        _ => false,
                    };
                    if log != mm.log {
                        out.fail(format!("log:hand-assembled-chain:{}", key), format!("{} hand-assembled with {}", case, show(&other_text)), format!("Stmt[A, Stmt[B, A], List[B]] with A = {:?}, B = {:?}: expected log {:?}, engine log {:?}", text, other_text, mm.log, log));
                    } else if !same_result {
                        out.fail(format!("result:hand-assembled-chain:{}", key), format!("{} hand-assembled with {}", case, show(&other_text)), format!("expected {:?} got {:?}", mm.result.as_ref().map(super::vals::show_value), r));
                    }
                }
            }
            let n = m.log.len();
            if n >= 1 {
                out.nontrivial.insert(hash64(&text));
            }
            for k in 0..n {
                let case_k = format!("effects|{} fault=Err@{}", show(&text), k);
                compare_run(ast, &text, &world, Fault::Err, k, &key, &case_k, out);
                if k % 2 == 1 {
                    let case_n = format!("effects|{} fault=ErrNested@{}", show(&text), k);
                    compare_run(ast, &text, &world, Fault::ErrNested, k, &key, &case_n, out);
                }
                out.count("transitions", 1);
            }
            out.count("states", 1);
            out.count("transitions", 1);
            if i % 1013 == 1 {
                out.sample(format!("{} -> log {:?}", text, m.log));
            }
        }
    }
    fn case_text(&self, tier: Tier, stage: usize, i: u64) -> String {
        if stage == 0 {
            return "context function that re-binds a variable".to_string();
        }
        let world = install();
        show(&print_program(&Programs::new(level(tier)).get(i), &world))
    }
    fn min_outcomes(&self) -> usize {
        2
    }
}
