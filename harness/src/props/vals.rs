//! Value alphabet and engine-vs-model evaluation comparison shared by C03, C04, C06, C09.
use super::common::normalise_panic;
use crate::core::*;
use crate::engine::{guarded, Res};
use crate::model::eval::{self, MBind, MCtx, World};
use crate::model::parse;
use expression_engine::{parse_expression, Context, Value};
use rust_decimal::Decimal;
use std::str::FromStr;

pub fn d(s: &str) -> Value {
    Value::Number(Decimal::from_str(s).unwrap())
}

/// V: every variant and every edge the handlers branch on
pub fn alphabet() -> Vec<Value> {
    let mut v = vec![
        d("-1"),
        d("0"),
        d("1"),
        d("2"),
        d("3"),
        d("7"),
        d("0.5"),
        d("1.0"),
        d("1.50"),
        d("-2.5"),
        d("0.0"),
        d("63"),
        d("64"),
        d("65"),
        d("-64"),
        d("2147483648"),
        d("4294967296"),
        d("4294967297"),
        d("9223372036854775807"),
        d("-9223372036854775808"),
        d("9223372036854775808"),
        d("18446744073709551616"),
        d("18446744073709551617"),
        Value::Number(Decimal::MAX),
        Value::Number(Decimal::MIN),
        d("0.0000000000000000000000000001"),
        d("7922816251426433759354395033.5"),
    ];
    v.extend([Value::Bool(true), Value::Bool(false)]);
    for s in ["", "a", "ab", "ba", "é"] {
        v.push(Value::String(s.to_string()));
    }
    v.extend([
        Value::List(vec![]),
        Value::List(vec![d("1")]),
        Value::List(vec![d("1"), Value::Bool(true)]),
        Value::List(vec![Value::List(vec![d("1")])]),
        Value::List(vec![Value::String("a".into())]),
        Value::List(vec![d("1.0"), Value::None]),
        Value::List(vec![Value::Bool(true), Value::Bool(false)]),
        Value::Map(vec![]),
        Value::Map(vec![(d("1"), d("2"))]),
        Value::None,
    ]);
    // (appended: other code addresses earlier entries by index) fractions and whole numbers
    // written with 10 and 20 decimals: integrality decided on anything but the value goes wrong here
    v.extend([d("2.5000000000"), d("1.50000000000000000000"), d("3.00000000000000000000")]);
    v
}

/// small sub-alphabet for compositions
pub fn alphabet_small() -> Vec<Value> {
    vec![
        d("0"),
        d("1"),
        d("-2.5"),
        d("3.0"),
        d("64"),
        Value::Number(Decimal::MAX),
        Value::Bool(true),
        Value::Bool(false),
        Value::String("ab".into()),
        Value::List(vec![d("1"), Value::String("ab".into())]),
        Value::None,
    ]
}

pub fn class(v: &Value) -> &'static str {
    match v {
        Value::Number(n) => {
            if n.is_zero() {
                if n.scale() > 0 {
                    "zero-scaled"
                } else {
                    "zero"
                }
            } else if *n == Decimal::MAX {
                "dec-max"
            } else if *n == Decimal::MIN {
                "dec-min"
            } else if n.fract() != Decimal::ZERO {
                if n.abs() < Decimal::ONE {
                    "frac-small"
                } else {
                    "frac"
                }
            } else if n.abs() > Decimal::from(i64::MAX) {
                if *n == Decimal::from_str("-9223372036854775808").unwrap() {
                    "i64-min"
                } else {
                    "beyond-i64"
                }
            } else if n.scale() > 0 {
                "int-scaled"
            } else if n.is_sign_negative() {
                "int-neg"
            } else if *n >= Decimal::from(64) {
                "int>=64"
            } else {
                "int"
            }
        }
        Value::Bool(_) => "bool",
        Value::String(_) => "string",
        Value::List(_) => "list",
        Value::Map(_) => "map",
        Value::None => "none",
    }
}

/// expression text that evaluates to v without any context
pub fn as_expr(v: &Value) -> String {
    match v {
        Value::Number(n) => {
            if n.is_sign_negative() && !n.is_zero() {
                format!("(- {})", n.abs())
            } else {
                n.abs().to_string()
            }
        }
        Value::Bool(b) => b.to_string(),
        Value::String(s) => format!("'{}'", s),
        Value::List(l) => format!("[{}]", l.iter().map(as_expr).collect::<Vec<_>>().join(", ")),
        Value::Map(m) => format!("{{{}}}", m.iter().map(|(k, x)| format!("{} : {}", as_expr(k), as_expr(x))).collect::<Vec<_>>().join(", ")),
        Value::None => "unbound_name".to_string(),
    }
}

pub fn show_value(v: &Value) -> String {
    match v {
        Value::Number(n) => format!("{}", n),
        Value::Bool(b) => format!("{}", b),
        Value::String(s) => format!("{:?}", s),
        Value::List(l) => format!("[{}]", l.iter().map(show_value).collect::<Vec<_>>().join(",")),
        Value::Map(m) => format!("{{{}}}", m.iter().map(|(k, x)| format!("{}:{}", show_value(k), show_value(x))).collect::<Vec<_>>().join(",")),
        Value::None => "None".into(),
    }
}

pub struct ExecOut {
    pub result: Res<Value>,
    /// variable bindings after the run, sorted by name (functions are listed as "<fn>")
    pub vars: Vec<(String, Option<Value>)>,
}

/// parse + exec on a context holding `bindings` as variables
pub fn engine_exec(program: &str, bindings: &[(String, Value)]) -> ExecOut {
    let mut ctx = Context::new();
    for (k, v) in bindings {
        ctx.set_variable(k, v.clone());
    }
    engine_exec_ctx(program, &mut ctx)
}

pub fn engine_exec_ctx(program: &str, ctx: &mut Context) -> ExecOut {
    let result = guarded(|| {
        let ast = parse_expression(program).map_err(|e| format!("parse: {:?}", e))?;
        ast.exec(ctx).map_err(|e| format!("{:?}", e))
    });
    ExecOut { result, vars: context_vars(ctx) }
}

pub fn context_vars(ctx: &Context) -> Vec<(String, Option<Value>)> {
    let keys: Vec<String> = match guarded(|| Ok(ctx.0.lock().map(|g| g.keys().cloned().collect::<Vec<_>>()).map_err(|_| "poisoned".to_string())?)) {
        Res::Ok(k) => k,
        _ => return vec![("<context lock poisoned>".into(), None)],
    };
    let mut v: Vec<(String, Option<Value>)> = keys.into_iter().map(|k| {
        let val = ctx.get_variable(&k);
        (k, val)
    }).collect();
    v.sort_by(|a, b| a.0.cmp(&b.0));
    v
}

pub fn model_vars(ctx: &MCtx) -> Vec<(String, Option<Value>)> {
    ctx.iter()
        .map(|(k, b)| {
            (
                k.clone(),
                match b {
                    MBind::Var(v) => Some(v.clone()),
                    MBind::Func(_) => None,
                },
            )
        })
        .collect()
}

/// How strictly Ok-results are compared.
#[derive(Clone, Copy, PartialEq)]
pub enum Cmp {
    /// numbers by value (trailing zeros ignored)
    Value,
    /// numbers by digits and scale
    Strict,
}

/// Run `program` on the engine and on the model with the same variable bindings and compare
/// result class, value and final context. `key` is the shape class of the case.
pub fn compare(program: &str, bindings: &[(String, Value)], world: &World, cmp: Cmp, key: &str, case: &str, out: &mut WorkerOut) {
    out.evals += 1;
    let ast = match parse::parse(program, &world.ops) {
        Ok(a) => a,
        Err(e) => {
            out.fail("generator:model-rejects-program", case, format!("{:?}: {:?}", program, e));
            return;
        }
    };
    let mut mctx: MCtx = bindings.iter().map(|(k, v)| (k.clone(), MBind::Var(v.clone()))).collect();
    let want = eval::eval(&ast, &mut mctx, world);
    let got = engine_exec(program, bindings);
    out.count("validated", 1);
    match (&want, &got.result) {
        (_, Res::Panic(m)) => {
            out.outcomes.insert("panic".into());
            out.fail(format!("panic:{}:{}", key, normalise_panic(m)), case, format!("{:?} panicked: {}", program, m));
            return;
        }
        (Ok(w), Res::Ok(g)) => {
            let same = match cmp {
                Cmp::Value => w == g,
                Cmp::Strict => eval::same_value_strict(w, g),
            };
            out.outcomes.insert(format!("ok:{}", class(w)));
            if !same {
                out.fail(format!("value:{}", key), case, format!("{:?}: expected {} got {}", program, show_value(w), show_value(g)));
                return;
            }
        }
        (Err(_), Res::Err(_)) => {
            out.outcomes.insert("err".into());
        }
        (Ok(w), Res::Err(e)) => {
            out.outcomes.insert("ok-vs-err".into());
            out.fail(format!("err-for-defined:{}", key), case, format!("{:?}: expected {} got Err({})", program, show_value(w), e));
            return;
        }
        (Err(e), Res::Ok(g)) => {
            out.outcomes.insert("err-vs-ok".into());
            out.fail(format!("value-for-fault:{}", key), case, format!("{:?}: expected an error ({:?}) got {}", program, e, show_value(g)));
            return;
        }
    }
    // final context
    let mv = model_vars(&mctx);
    if mv.len() != got.vars.len() || mv.iter().zip(&got.vars).any(|(a, b)| a.0 != b.0 || a.1 != b.1) {
        out.fail(format!("context:{}", key), case, format!("{:?}: context expected {:?} got {:?}", program, mv, got.vars));
    }
}
