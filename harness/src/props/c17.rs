//! C17 — value conversions preserve the value.
use super::common::normalise_panic;
use crate::core::*;
use crate::engine::{guarded, Res};
use expression_engine::Value;
use rust_decimal::Decimal;
use std::time::Duration;

pub struct C17;

fn int_lattice_i128() -> Vec<i128> {
    let mut v: Vec<i128> = vec![0, 1, -1, 2, -2, 10, -10, i128::MAX, i128::MIN, i128::MAX - 1, i128::MIN + 1];
    for k in 1..127u32 {
        let p = 1i128 << k;
        v.extend([p, p - 1, p + 1, -p, -p + 1, -p - 1]);
    }
    let mut p10: i128 = 1;
    for _ in 0..38 {
        v.extend([p10, p10 - 1, p10 + 1, -p10, -p10 + 1, -p10 - 1]);
        p10 = p10.saturating_mul(10);
    }
    let lim: i128 = (1i128 << 96) - 1;
    v.extend([lim, lim + 1, lim - 1, -lim, -lim - 1, -lim + 1]);
    v.sort();
    v.dedup();
    v
}

fn u128_lattice() -> Vec<u128> {
    let mut v: Vec<u128> = vec![0, 1, 2, 10, u128::MAX, u128::MAX - 1];
    for k in 1..128u32 {
        let p = 1u128 << k;
        v.extend([p, p - 1, p + 1]);
    }
    let mut p10: u128 = 1;
    for _ in 0..39 {
        v.extend([p10, p10 - 1, p10 + 1]);
        p10 = p10.saturating_mul(10);
    }
    v.sort();
    v.dedup();
    v
}

fn check_int<T: std::fmt::Display + Copy>(ty: &str, n: T, conv: impl FnOnce(T) -> Value, beyond96: bool, out: &mut WorkerOut) {
    out.evals += 1;
    let want = n.to_string();
    let case = format!("from-int|Value::from({}{})", want, ty);
    let r = guarded(|| Ok(conv(n)));
    match r {
        Res::Ok(Value::Number(d)) => {
            // string comparison: independent of rust_decimal arithmetic
            let got = d.to_string();
            if got == want && d.scale() == 0 {
                out.outcomes.insert("int-exact".into());
                out.count("validated", 1);
            } else if beyond96 {
                out.outcomes.insert("int-beyond-range".into());
                out.fail(format!("from:{}:beyond-2^96", ty), case, format!("Value::from({}) denotes {}", want, got));
            } else {
                out.fail(format!("from:{}:wrong-value", ty), case, format!("Value::from({}) denotes {}", want, got));
            }
        }
        Res::Ok(other) => out.fail(format!("from:{}:not-a-number", ty), case, format!("{:?}", other)),
        Res::Panic(m) => out.fail(format!("panic:from:{}:{}", ty, normalise_panic(&m)), case, m),
        Res::Err(e) => out.fail(format!("from:{}:err", ty), case, e),
    }
}

fn float_bits_f64() -> Vec<f64> {
    let mut v = vec![0.0, -0.0, f64::NAN, f64::INFINITY, f64::NEG_INFINITY, f64::MIN_POSITIVE, f64::MAX, f64::MIN, f64::EPSILON, 5e-324, 0.1, 0.2, 0.3, 1.1, 1e40, -1e40, 7.9e28, 7.93e28, 1e28, 123456.789];
    // whole numbers: 2^k and its exactly representable neighbours, powers of ten
    for k in 0..96 {
        for dlt in [-1i128, 0, 1] {
            let n = (1i128 << k) + dlt;
            if (n as f64) as i128 == n {
                v.push(n as f64);
                v.push(-(n as f64));
            }
        }
    }
    let mut p = 1f64;
    for _ in 0..22 {
        v.extend([p, -p, p * 3.0, p * 7.0]);
        p *= 10.0;
    }
    let mantissas: [u64; 16] = [0, 1, 0x8000000000000, 0xFFFFFFFFFFFFF, 0x5555555555555, 0xAAAAAAAAAAAAA, 0x999999999999A, 0x3333333333333, 0x1, 0x10, 0x100000, 0xF0F0F0F0F0F0F, 0x123456789ABCD, 0xFFFFFFFFFFFFE, 0x8000000000001, 0x4000000000000];
    for e in 0..2047u64 {
        for m in mantissas {
            for s in [0u64, 1] {
                v.push(f64::from_bits((s << 63) | (e << 52) | m));
            }
        }
    }
    v
}

fn float_bits_f32() -> Vec<f32> {
    let mut v = vec![0.0f32, -0.0, f32::NAN, f32::INFINITY, f32::NEG_INFINITY, f32::MIN_POSITIVE, f32::MAX, f32::MIN, 0.1, 0.2, 1.1, 1e30, -1e30, 7.9e28];
    for k in 0..96 {
        for dlt in [-1i128, 0, 1] {
            let n = (1i128 << k) + dlt;
            if (n as f32) as i128 == n {
                v.push(n as f32);
                v.push(-(n as f32));
            }
        }
    }
    let mantissas: [u32; 12] = [0, 1, 0x400000, 0x7FFFFF, 0x555555, 0x2AAAAA, 0x4CCCCD, 0x199999, 0x10, 0x7FFFFE, 0x400001, 0x123456];
    for e in 0..255u32 {
        for m in mantissas {
            for s in [0u32, 1] {
                v.push(f32::from_bits((s << 31) | (e << 23) | m));
            }
        }
    }
    v
}

/// x as f64; ty is "f32" or "f64"
fn check_float(ty: &str, x: f64, v: Res<Value>, out: &mut WorkerOut) {
    out.evals += 1;
    let case = format!("from-float|Value::from({:e}{})", x, ty);
    let d = match v {
        Res::Ok(Value::Number(d)) => d,
        Res::Panic(m) => {
            out.fail(format!("panic:from:{}:{}", ty, normalise_panic(&m)), case, m);
            return;
        }
        other => {
            out.fail(format!("from:{}:not-a-number", ty), case, format!("{:?}", other));
            return;
        }
    };
    let back: f64 = d.to_string().parse().unwrap_or(f64::NAN);
    if !x.is_finite() {
        out.outcomes.insert("float-non-finite".into());
        // there is no decimal for it: any number returned is a different number
        out.fail(format!("from:{}:non-finite", ty), case, format!("Value::from({}) denotes {}", x, d));
        return;
    }
    if x.abs() >= 7.922816251426434e28 {
        out.outcomes.insert("float-beyond-range".into());
        if back != x {
            out.fail(format!("from:{}:beyond-2^96", ty), case, format!("Value::from({:e}) denotes {}", x, d));
        }
        return;
    }
    if x != 0.0 && x.abs() < 1e-28 {
        // below the resolution of a 28-place decimal: rounding towards 0 is all that can be done
        out.outcomes.insert("float-below-resolution".into());
        out.count("skipped_below_resolution", 1);
        if back.abs() > 1e-27 {
            out.fail(format!("from:{}:tiny-became-large", ty), case, format!("Value::from({:e}) denotes {}", x, d));
        }
        return;
    }
    // a float that is a whole number within 96 bits is exactly an integer: that integer it must be
    if x.fract() == 0.0 && x.abs() < 7.9e28 {
        let want = format!("{}", x as i128);
        let got = d.normalize().to_string();
        if got == want || (want == "0" && (got == "0" || got == "-0")) {
            out.outcomes.insert("float-whole-exact".into());
            out.count("validated", 1);
        } else {
            out.fail(format!("from:{}:whole-number-changed", ty), case, format!("Value::from({:e}) is the integer {} but denotes {}", x, want, d));
        }
        return;
    }
    // in range: the decimal must agree with the float to the decimal precision of the float
    // type (DBL_DIG = 15, FLT_DIG = 6 significant digits), or to the 28-place resolution
    let rel = if ty == "f32" { 1e-6 } else { 1e-14 };
    let tol = (x.abs() * rel).max(1e-28);
    if (back - x).abs() <= tol {
        out.outcomes.insert("float-roundtrip".into());
        out.count("validated", 1);
    } else {
        out.fail(format!("from:{}:wrong-value", ty), case, format!("Value::from({:e}) denotes {} which reads back as {:e}", x, d, back));
    }
}

/// (mantissa, scale, negative) lattice for integer()
fn integer_lattice() -> Vec<(u128, u32, bool)> {
    let mut ms: Vec<u128> = (0..=1000).collect();
    for k in 1..=95u32 {
        let p = 1u128 << k;
        ms.extend([p - 1, p, p + 1]);
    }
    let mut p10: u128 = 1;
    for _ in 0..=28 {
        ms.extend([p10 - 1, p10, p10 + 1, p10 * 3, p10 * 5]);
        p10 *= 10;
    }
    // d.ddd000...0: a fractional part whose only non-zero digits are the leading ones
    let mut k10: u128 = 1;
    for _ in 0..=26 {
        for dgt in [11u128, 15, 25, 75, 99, 105, 125, 999] {
            ms.push(dgt * k10);
        }
        k10 *= 10;
    }
    let i64max = i64::MAX as u128;
    let mut s10: u128 = 1;
    for _ in 0..=9 {
        ms.extend([i64max * s10, (i64max + 1) * s10, (i64max + 2) * s10, (i64max - 1) * s10, (i64max + 1) * s10 + 1, (i64max + 1) * s10 - 1]);
        s10 *= 10;
    }
    ms.retain(|m| *m < (1u128 << 96));
    ms.sort();
    ms.dedup();
    let mut v = Vec::new();
    for m in ms {
        for s in 0..=28u32 {
            v.push((m, s, false));
            if m != 0 {
                v.push((m, s, true));
            }
        }
    }
    v
}

fn check_integer(m: u128, s: u32, neg: bool, out: &mut WorkerOut) {
    out.evals += 1;
    let mut d = Decimal::from_i128_with_scale(m as i128, s);
    d.set_sign_negative(neg);
    let case = format!("integer|{}.integer()", d);
    let p = 10u128.pow(s);
    let want: Option<i64> = if m % p == 0 {
        let q = m / p;
        if neg {
            if q <= i64::MAX as u128 + 1 {
                Some((-(q as i128)) as i64)
            } else {
                None
            }
        } else if q <= i64::MAX as u128 {
            Some(q as i64)
        } else {
            None
        }
    } else {
        None
    };
    let class = if m % p != 0 {
        "fractional"
    } else if want.is_none() {
        "beyond-i64"
    } else if s > 0 {
        "integral-scaled"
    } else {
        "integral"
    };
    {
        // float() of the same number: the double nearest to the number given (what reading its
        // digits gives), whatever the scale, never a neighbour of it
        out.evals += 1;
        let text = format!("{}{}", if neg { "-" } else { "" }, crate::model::dec::render(false, m, s));
        let want: f64 = text.parse().unwrap();
        match guarded(|| Value::Number(d).float().map_err(|e| format!("{:?}", e))) {
            Res::Ok(f) if f.to_bits() == want.to_bits() || (f == 0.0 && want == 0.0) => out.count("validated", 1),
            Res::Ok(f) => out.fail(format!("float:another-number:{}", if s > 22 { "scale>22" } else if m >= (1u128 << 53) { "mantissa>=2^53" } else { "small" }), format!("integer|{}.float()", d), format!("expected {:e} (the double nearest to {}), got {:e}", want, text, f)),
            Res::Err(e) => out.fail("float:rejects-number", format!("integer|{}.float()", d), e),
            Res::Panic(msg) => out.fail(format!("panic:float:{}", normalise_panic(&msg)), format!("integer|{}.float()", d), msg),
        }
    }
    let got = guarded(|| Value::Number(d).integer().map_err(|e| format!("{:?}", e)));
    match (want, got) {
        (_, Res::Panic(msg)) => out.fail(format!("panic:integer:{}", normalise_panic(&msg)), case, msg),
        (Some(w), Res::Ok(g)) if w == g => {
            out.outcomes.insert(format!("integer-ok:{}", class));
            out.count("validated", 1);
        }
        (None, Res::Err(_)) => {
            out.outcomes.insert(format!("integer-err:{}", class));
            out.count("validated", 1);
        }
        (w, g) => out.fail(format!("integer:{}:{}", class, if w.is_some() { "wrong-or-rejected" } else { "accepted" }), case, format!("expected {:?} got {:?}", w, g)),
    }
}

fn variants() -> Vec<(&'static str, Value)> {
    vec![
        ("string", Value::String("x".into())),
        ("string-empty", Value::String(String::new())),
        ("string-digits", Value::String("12".into())),
        ("number", Value::Number(Decimal::new(125, 1))),
        ("number-int", Value::Number(Decimal::new(7, 0))),
        ("bool-true", Value::Bool(true)),
        ("bool-false", Value::Bool(false)),
        ("list", Value::List(vec![Value::Bool(true), Value::None])),
        ("list-empty", Value::List(vec![])),
        ("map", Value::Map(vec![(Value::Bool(true), Value::None)])),
        ("map-empty", Value::Map(vec![])),
        ("none", Value::None),
    ]
}

fn check_accessors(out: &mut WorkerOut) {
    for (name, v) in variants() {
        let kind = name.split('-').next().unwrap();
        let mut acc = |acc_name: &str, own: bool, r: Res<bool>| {
            out.evals += 1;
            let case = format!("accessors|{}.{}()", name, acc_name);
            match r {
                Res::Ok(same) => {
                    if !own {
                        out.fail(format!("accessor:{}:accepts:{}", acc_name, kind), case, "accessor returned Ok for a value of another type");
                    } else if !same {
                        out.fail(format!("accessor:{}:changes-value", acc_name), case, "accessor returned a different value");
                    } else {
                        out.outcomes.insert("accessor-own".into());
                        out.count("validated", 1);
                    }
                }
                Res::Err(_) => {
                    if own {
                        out.fail(format!("accessor:{}:rejects-own", acc_name), case, "accessor rejected its own variant");
                    } else {
                        out.outcomes.insert("accessor-rejects-other".into());
                        out.count("validated", 1);
                    }
                }
                Res::Panic(m) => out.fail(format!("panic:accessor:{}", acc_name), case, m),
            }
        };
        let e = |x: expression_engine::Result<bool>| x.map_err(|e| format!("{:?}", e));
        let vv = v.clone();
        acc("string", kind == "string", guarded(|| e(vv.clone().string().map(|s| Value::String(s) == vv))));
        acc("bool", kind == "bool", guarded(|| e(vv.clone().bool().map(|b| Value::Bool(b) == vv))));
        acc("decimal", kind == "number", guarded(|| e(vv.clone().decimal().map(|d| matches!(&vv, Value::Number(x) if x.mantissa() == d.mantissa() && x.scale() == d.scale())))));
        acc("list", kind == "list", guarded(|| e(vv.clone().list().map(|l| Value::List(l) == vv))));
        acc("integer", name == "number-int", guarded(|| e(vv.clone().integer().map(|i| Value::Number(Decimal::from(i)) == vv))));
        acc("float", kind == "number", guarded(|| e(vv.clone().float().map(|f| matches!(&vv, Value::Number(x) if x.to_string().parse::<f64>().ok() == Some(f))))));
    }
    // From for the non-numeric types round-trips through the accessors
    // a string lattice: every "special" character (whitespace of every kind, BOM, NUL, quotes,
    // backslash, digits, multi-byte characters, a combining mark, words that look like other
    // values) at the start, in the middle, at the end and alone, and long runs
    let mut strings: Vec<String> = ["", "a", "é€😀", "12", " spaced ", "quote'\"", "true", "None", "1.50", "-0", "[1]"].iter().map(|s| s.to_string()).collect();
    for c in [" ", "\t", "\n", "\r", "\u{feff}", "\0", "'", "\"", "\\", "0", "é", "€", "😀", "\u{301}", "\u{a0}", "\u{200b}", "\u{2028}", "\u{7f}", "%", "{", "\u{fffd}"] {
        strings.push(c.to_string());
        strings.push(format!("{}x", c));
        strings.push(format!("x{}", c));
        strings.push(format!("x{}y", c));
        strings.push(format!("{}{}", c, c));
        strings.push(format!("{}x{}", c, c));
    }
    for n in [15usize, 16, 17, 23, 24, 25, 31, 32, 33, 63, 64, 65, 255, 256, 257, 4096] {
        strings.push("a".repeat(n));
        strings.push("é".repeat(n));
        strings.push(format!("{}€", "a".repeat(n - 1)));
    }
    for s in strings.iter().map(|s| s.as_str()) {
        out.evals += 2;
        let a = guarded(|| Value::from(s).string().map_err(|e| format!("{:?}", e)));
        let b = guarded(|| Value::from(s.to_string()).string().map_err(|e| format!("{:?}", e)));
        if a != Res::Ok(s.to_string()) || b != Res::Ok(s.to_string()) {
            out.fail("from:string:roundtrip", format!("accessors|Value::from({:?})", s), format!("{:?} / {:?}", a, b));
        } else {
            out.count("validated", 2);
        }
    }
    for b in [true, false] {
        out.evals += 1;
        if guarded(|| Value::from(b).bool().map_err(|e| format!("{:?}", e))) != Res::Ok(b) {
            out.fail("from:bool:roundtrip", format!("accessors|Value::from({})", b), "bool does not round-trip");
        } else {
            out.count("validated", 1);
        }
    }
    for (_, v) in variants() {
        out.evals += 1;
        let l = vec![v.clone(), Value::None, v.clone()];
        if guarded(|| Value::from(l.clone()).list().map_err(|e| format!("{:?}", e))) != Res::Ok(l.clone()) {
            out.fail("from:list:roundtrip", format!("accessors|Value::from(vec![{:?},..])", v), "list does not round-trip");
        } else {
            out.count("validated", 1);
        }
    }
    for (m, s) in [(0i64, 0u32), (1, 0), (10, 1), (-125, 2), (i64::MAX, 28), (i64::MIN, 0), (1, 28)] {
        out.evals += 1;
        let d = Decimal::new(m, s);
        match guarded(|| Value::from(d).decimal().map_err(|e| format!("{:?}", e))) {
            Res::Ok(g) if g.mantissa() == d.mantissa() && g.scale() == d.scale() => out.count("validated", 1),
            other => out.fail("from:decimal:roundtrip", format!("accessors|Value::from({})", d), format!("{:?}", other)),
        }
    }
}

const LIM96: u128 = (1u128 << 96) - 1;

impl Prop for C17 {
    fn id(&self) -> &'static str {
        "C17"
    }
    fn plan(&self, _tier: Tier) -> Plan {
        let il = integer_lattice().len() as u64;
        Plan {
            stages: vec![
                Stage { name: "from-int".into(), len: 16, chunk: 1, timeout: Duration::from_secs(300), what: "From<integer types>: i8/u8/i16/u16 all values, wider types on the boundary lattice".into() },
                Stage { name: "dev-from-int".into(), len: 16, chunk: 1, timeout: Duration::from_secs(300), what: "the same integer conversions in the dev build (overflow checks on)".into() },
                Stage { name: "from-float".into(), len: 4, chunk: 1, timeout: Duration::from_secs(300), what: "From<f32|f64>: 12-16 mantissa patterns x every exponent x sign, plus named values".into() },
                Stage { name: "integer".into(), len: il, chunk: (il / 32).max(1000), timeout: Duration::from_secs(300), what: "integer() on (mantissa, scale, sign) lattice".into() },
                Stage { name: "accessors".into(), len: 1, chunk: 1, timeout: Duration::from_secs(60), what: "every accessor x every variant; From for strings, booleans, decimals, lists".into() },
            ],
            rule: "From<i8|u8|i16|u16>: all values; From<i32..i128,u32..u128>: {0,±1,±2^k,±2^k±1 (all k),±10^k,±10^k±1,MIN,MAX,MIN+1,MAX-1,±(2^96-1),±2^96}; From<f32|f64>: mantissa patterns x every exponent x sign + ±0, subnormals, ±inf, NaN; \
                   integer(): mantissa lattice (0..1000, 2^k, 10^k multiples, the i64 boundary at every scale) x scale 0..28 x sign; 6 accessors x 12 values. \
                   Oracles: integers by printed digits; floats by reading the decimal back (agreement to DBL_DIG=15 / FLT_DIG=6 significant digits or the 28-place resolution), non-finite and out-of-range inputs must not become a number; integer() by integer division on the mantissa. distinct = distinct (conversion, class) key"
                .into(),
            assumptions: vec![
                "float conversion is judged by round trip, not by the exact binary expansion (0.1f64 may become 0.1)".into(),
                "floats smaller in magnitude than 10^-28 can only become 0 and are skipped (counted)".into(),
            ],
            exhaustive: true,
            bound: "the lattices in 'rule' (all values for the 8- and 16-bit types)".into(),
            states_note: "states = input values converted; transitions = conversions checked".into(),
        }
    }
    fn run(&self, _tier: Tier, stage: usize, a: u64, b: u64, out: &mut WorkerOut) {
        let stage = match stage {
            0 | 1 => 0,
            n => n - 1,
        };
        match stage {
            0 => {
                for part in a..b {
                    out.at(part);
                    match part {
                        0 => (i8::MIN..=i8::MAX).for_each(|n| check_int("i8", n, Value::from, false, out)),
                        1 => (u8::MIN..=u8::MAX).for_each(|n| check_int("u8", n, Value::from, false, out)),
                        2 => (i16::MIN..=i16::MAX).for_each(|n| check_int("i16", n, Value::from, false, out)),
                        3 => (u16::MIN..=u16::MAX).for_each(|n| check_int("u16", n, Value::from, false, out)),
                        4 => int_lattice_i128().into_iter().filter_map(|n| i32::try_from(n).ok()).for_each(|n| check_int("i32", n, Value::from, false, out)),
                        5 => u128_lattice().into_iter().filter_map(|n| u32::try_from(n).ok()).for_each(|n| check_int("u32", n, Value::from, false, out)),
                        6 => int_lattice_i128().into_iter().filter_map(|n| i64::try_from(n).ok()).for_each(|n| check_int("i64", n, Value::from, false, out)),
                        7 => u128_lattice().into_iter().filter_map(|n| u64::try_from(n).ok()).for_each(|n| check_int("u64", n, Value::from, false, out)),
                        8 => int_lattice_i128().into_iter().for_each(|n| check_int("i128", n, Value::from, n.unsigned_abs() > LIM96, out)),
                        9 => u128_lattice().into_iter().for_each(|n| check_int("u128", n, Value::from, n > LIM96, out)),
                        // contiguous runs around the boundaries of the 32/64-bit types
                        10 => ((i32::MAX as i64 - 5000)..=(i32::MAX as i64)).for_each(|n| check_int("i32", n as i32, Value::from, false, out)),
                        11 => ((i32::MIN as i64)..=(i32::MIN as i64 + 5000)).for_each(|n| check_int("i32", n as i32, Value::from, false, out)),
                        12 => ((i64::MAX - 5000)..=i64::MAX).for_each(|n| check_int("i64", n, Value::from, false, out)),
                        13 => (i64::MIN..=(i64::MIN + 5000)).for_each(|n| check_int("i64", n, Value::from, false, out)),
                        14 => ((u64::MAX - 5000)..=u64::MAX).chain((i64::MAX as u64 - 2500)..=(i64::MAX as u64 + 2500)).for_each(|n| check_int("u64", n, Value::from, false, out)),
                        _ => ((u32::MAX - 5000)..=u32::MAX).chain((i32::MAX as u32 - 2500)..=(i32::MAX as u32 + 2500)).for_each(|n| check_int("u32", n, Value::from, false, out)),
                    }
                    out.count("states", 1);
                }
                out.sample("Value::from(i128::MAX), Value::from(-32768i16), Value::from(u64::MAX)");
            }
            1 => {
                for part in a..b {
                    out.at(part);
                    match part {
                        0 => float_bits_f64().into_iter().step_by(2).for_each(|x| check_float("f64", x, guarded(|| Ok(Value::from(x))), out)),
                        1 => float_bits_f64().into_iter().skip(1).step_by(2).for_each(|x| check_float("f64", x, guarded(|| Ok(Value::from(x))), out)),
                        2 => float_bits_f32().into_iter().step_by(2).for_each(|x| check_float("f32", x as f64, guarded(|| Ok(Value::from(x))), out)),
                        _ => float_bits_f32().into_iter().skip(1).step_by(2).for_each(|x| check_float("f32", x as f64, guarded(|| Ok(Value::from(x))), out)),
                    }
                }
                out.sample("Value::from(f64::NAN), Value::from(0.1f64), Value::from(f32::MAX)");
            }
            2 => {
                let l = integer_lattice();
                for i in a..b {
            out.at(i);
                    let (m, s, neg) = l[i as usize];
                    check_integer(m, s, neg, out);
                }
                out.sample("9223372036854775808.00 . integer()");
            }
            _ => check_accessors(out),
        }
        let keys: Vec<String> = out.outcomes.iter().cloned().collect();
        for k in keys {
            out.nontrivial.insert(hash64(&k));
        }
        out.count("transitions", out.evals);
    }
    fn case_text(&self, _tier: Tier, stage: usize, i: u64) -> String {
        format!("stage {} part {}", stage, i)
    }
    fn min_outcomes(&self) -> usize {
        6
    }
}
