//! C10 — tokens tile the input and carry the exact source text; classification by
//! the documented rules. Every string of <= L fragments under three operator sets,
//! engine token stream (hook) vs invariants + reference lexer.
use super::common::*;
use crate::core::*;
use crate::engine::{self, Res};
use crate::gen::{show, Strings};
use crate::model::lex::{self, kinds, lex, InfixInfo, OpSet, TK};
use crate::model::parse::Ast;
use expression_engine::{InfixOpAssociativity, InfixOpType, Value};
use std::sync::Arc;
use std::time::Duration;

pub struct C10;

pub const CONFIGS: &[&str] = &["builtin", "symbolic", "words", "postfix-words"];

/// extra operators registered per configuration: (name, kind)
pub fn config_ops(cfg: &str) -> Vec<(&'static str, &'static str)> {
    match cfg {
        "symbolic" => vec![("+++", "prefix"), ("<->", "infix"), ("**=", "infix"), ("**", "infix"), ("<=>", "infix"), ("=~", "infix"), ("!!", "postfix"), ("?:", "infix"), (":=", "infix"), ("??", "postfix"), ("?.", "infix"), ("+.", "postfix"), ("^2", "postfix"), ("/i", "infix"), ("\u{4e0d}\u{5305}\u{542b}\u{4e8e}", "infix")],
        "words" => vec![("hi", "infix"), ("is_a", "infix"), ("~=", "infix"), ("is-not", "infix"), ("not-in", "infix"), ("neg", "prefix"), ("§", "postfix"), ("startsWithAnyCaseInsensitive_v2", "infix"), ("gr\u{f6}\u{df}er", "infix")],
        // word operators that exist as postfix operators only (the longest operator of all is one of them)
        "postfix-words" => vec![("isPositiveNumber", "postfix"), ("pct", "postfix")],
        _ => vec![],
    }
}

pub fn extra_fragments(cfg: &str) -> Vec<&'static str> {
    match cfg {
        "symbolic" => vec!["~", "i", "2", "\u{4e0d}\u{5305}\u{542b}\u{4e8e}", "\u{4e0d}"],
        "postfix-words" => vec!["isPositiveNumber", "isPositive", "pct"],
        "words" => vec!["hi", "is_a", "~", "is", "neg", "§", "startsWithAnyCaseInsensitive_v2", "startsWithAnyCaseInsensitive_v", "gr\u{f6}\u{df}er", "gr\u{f6}"],
        _ => vec![],
    }
}

/// register the configuration in the engine and return the matching model table
pub fn install(cfg: &str) -> OpSet {
    let mut ops = OpSet::builtin();
    for (name, kind) in config_ops(cfg) {
        match kind {
            "prefix" => {
                expression_engine::register_prefix_op(name, Arc::new(|v| Ok(v)));
                ops.prefix.insert(name.to_string());
            }
            "postfix" => {
                expression_engine::register_postfix_op(name, Arc::new(|v| Ok(v)));
                ops.postfix.insert(name.to_string());
            }
            _ => {
                expression_engine::register_infix_op(
                    name,
                    130,
                    InfixOpType::CALC,
                    InfixOpAssociativity::LEFT,
                    Arc::new(|a, _b| Ok::<Value, _>(a)),
                );
                ops.infix.insert(name.to_string(), InfixInfo { prec: 130, left: true, setter: false });
            }
        }
    }
    ops
}

fn alphabet(cfg: &str, small: bool) -> Vec<&'static str> {
    let mut v: Vec<&'static str> = if small { FRAGMENTS_SMALL.to_vec() } else { FRAGMENTS.to_vec() };
    v.extend(extra_fragments(cfg));
    v
}

fn sweeps(tier: Tier) -> Vec<(&'static str, Strings)> {
    let mut v = Vec::new();
    for cfg in CONFIGS {
        let l = match (tier, *cfg) {
            (Tier::Quick, _) => 4,
            (Tier::Thorough, _) => 5,
        };
        v.push((*cfg, Strings::new(&alphabet(cfg, false), l)));
    }
    // the same registered sets, but every string of <= 2 fragments is tokenised BEFORE the
    // operators are registered (a lexeme seen as a name first must be an operator afterwards)
    for cfg in &CONFIGS[1..] {
        v.push((match *cfg { "symbolic" => "symbolic-primed", "words" => "words-primed", _ => "postfix-words-primed" }, Strings::new(&alphabet(cfg, false), 3)));
    }
    // ... and the same again with the registrations made by another (joined) thread: what this
    // thread remembered about a lexeme must not survive a registration made elsewhere
    for cfg in &CONFIGS[1..] {
        v.push((match *cfg { "symbolic" => "symbolic-primed-xthread", "words" => "words-primed-xthread", _ => "postfix-words-primed-xthread" }, Strings::new(&alphabet(cfg, false), 3)));
    }
    // character-class completeness (see FRAGMENTS_EXTRA), built-ins and the word configuration
    for cfg in ["builtin", "words"] {
        let mut a = fragments_wide();
        a.extend(extra_fragments(cfg));
        v.push((cfg, Strings::new(&a, tier.pick(3, 4))));
    }
    // deeper over the small alphabet for the registered-operator configurations
    for cfg in &CONFIGS[1..] {
        v.push((*cfg, Strings::new(&alphabet(cfg, true), tier.pick(5, 6))));
    }
    v
}

fn err_class(e: &str) -> &'static str {
    if e.starts_with("UnterminatedString") {
        "unterminated"
    } else if e.starts_with("InvalidNumber") {
        "number"
    } else {
        "other"
    }
}

fn ast_texts(a: &Ast, out: &mut Vec<String>) {
    match a {
        Ast::Str(s) | Ast::Ref(s) => out.push(s.clone()),
        Ast::Num(_) | Ast::Bool(_) => {}
        Ast::Unary(op, x) => {
            out.push(op.clone());
            ast_texts(x, out)
        }
        Ast::Postfix(x, op) => {
            out.push(op.clone());
            ast_texts(x, out)
        }
        Ast::Binary(op, l, r) => {
            out.push(op.clone());
            ast_texts(l, out);
            ast_texts(r, out)
        }
        Ast::Ternary(a1, a2, a3) => {
            ast_texts(a1, out);
            ast_texts(a2, out);
            ast_texts(a3, out)
        }
        Ast::Func(n, v) => {
            out.push(n.clone());
            v.iter().for_each(|x| ast_texts(x, out))
        }
        Ast::List(v) | Ast::Stmt(v) => v.iter().for_each(|x| ast_texts(x, out)),
        Ast::Map(v) => v.iter().for_each(|(k, x)| {
            ast_texts(k, out);
            ast_texts(x, out)
        }),
    }
}

pub fn check_tokens(s: &str, ops: &OpSet, stage: &str, out: &mut WorkerOut) {
    let case = || format!("{}|{}", stage, show(s));
    let got = engine::tokenize(s);
    let want = lex(s, ops);
    out.evals += 1;
    out.outcomes.insert(format!("tokenize:{}", got.class()));
    match (&got, &want) {
        (Res::Panic(m), _) => out.fail(format!("panic:tokenize:{}", normalise_panic(m)), case(), m.clone()),
        (Res::Err(e), Err(le)) => {
            let ec = err_class(e);
            let lc = match le {
                lex::LexErr::UnterminatedString => "unterminated",
                lex::LexErr::InvalidNumber => "number",
            };
            // both reject. Which error variant is reported (and which of two lexical errors is
            // met first) is not part of the property: only rejection is compared
            let _ = (ec, lc);
            out.outcomes.insert("both-reject".into());
        }
        (Res::Err(e), Ok(t)) => {
            // a digit run that is a well-formed decimal but does not fit 96 bits / 28 places has
            // no value the language can give it: the properties do not say whether it is rejected
            // or approximated, so neither is flagged (C09 quantifies over representable literals)
            if t.iter().any(|x| x.kind == TK::Num && lex::decimal_parts(&x.text).is_none()) {
                out.count("skipped_number_not_representable", 1);
                out.outcomes.insert("number-not-representable".into());
                return;
            }
            out.fail(format!("lex:rejected-valid:{}", err_class(e)), case(), format!("engine: {}; model tokens: {}", e, kinds(t)))
        }
        (Res::Ok(t), Err(le)) => out.fail(
            format!("lex:accepted-invalid:{:?}", le),
            case(),
            format!("engine tokens: {:?}", t),
        ),
        (Res::Ok(got), Ok(want)) => {
            // (1) tiling invariants on the engine's own spans
            let mut prev_end = 0usize;
            for (k, text, a, b) in got {
                let (a, b) = (*a, *b);
                if !(a < b && b <= s.len()) {
                    out.fail(format!("span:bounds:{}", k), case(), format!("span {}..{} of {}", a, b, s.len()));
                    return;
                }
                if !s.is_char_boundary(a) || !s.is_char_boundary(b) {
                    out.fail(format!("span:char-boundary:{}", k), case(), format!("span {}..{}", a, b));
                    return;
                }
                if a < prev_end {
                    out.fail(format!("span:overlap:{}", k), case(), format!("starts at {} before previous end {}", a, prev_end));
                    return;
                }
                if !s[prev_end..a].chars().all(lex::is_ws) {
                    out.fail(format!("span:gap-not-whitespace:before-{}", k), case(), format!("gap {:?}", &s[prev_end..a]));
                    return;
                }
                let slice = &s[a..b];
                let ok = match k.as_str() {
                    "string" => {
                        slice.len() >= 2
                            && slice[1..slice.len() - 1] == **text
                            && slice.chars().next() == slice.chars().last()
                            && matches!(slice.chars().next(), Some('"') | Some('\''))
                    }
                    "number" => match (lex::decimal_parts(slice), text.parse::<rust_decimal::Decimal>()) {
                        (Some((m, sc)), Ok(d)) => d.mantissa() as u128 == m && d.scale() == sc && !d.is_sign_negative(),
                        // well-formed but not representable: out of the quantified domain (see above)
                        (None, Ok(_)) => lex::valid_decimal_text(slice),
                        _ => false,
                    },
                    "bool" => (slice == "true" || slice == "True") == (text == "true") && matches!(slice, "true" | "True" | "false" | "False"),
                    _ => slice == text,
                };
                if !ok {
                    out.fail(format!("text:not-source-slice:{}", k), case(), format!("token text {:?} vs slice {:?}", text, slice));
                    return;
                }
                prev_end = b;
            }
            if !s[prev_end..].chars().all(lex::is_ws) {
                out.fail("span:tail-not-whitespace", case(), format!("tail {:?}", &s[prev_end..]));
                return;
            }
            // (2) equality with the reference lexer
            if got.len() != want.len() {
                out.fail(
                    "lex:token-count",
                    case(),
                    format!("engine {:?} vs model {}", got.iter().map(|t| (&t.0, &t.1)).collect::<Vec<_>>(), kinds(want)),
                );
                return;
            }
            for (g, w) in got.iter().zip(want) {
                if g.0 != w.kind.name() {
                    out.fail(format!("lex:kind:model={}:engine={}", w.kind.name(), g.0), case(), format!("at {}..{}", g.2, g.3));
                    return;
                }
                if g.2 != w.start || g.3 != w.end {
                    out.fail(format!("lex:span:{}", g.0), case(), format!("engine {}..{} model {}..{}", g.2, g.3, w.start, w.end));
                    return;
                }
                if w.kind == TK::Str && g.1 != w.text {
                    out.fail("lex:string-payload", case(), format!("engine {:?} model {:?}", g.1, w.text));
                    return;
                }
            }
            if want.len() >= 2 {
                out.nontrivial.insert(hash64(&kinds(want)));
            }
        }
        (Res::Ok(_), _) | (Res::Err(_), _) => {}
    }
    // (3) cross-check without the hook: every name / string / operator in the public AST
    // is a substring of the input
    if let Res::Ok(ast) = engine::parse(s) {
        let mut texts = Vec::new();
        ast_texts(&ast, &mut texts);
        for t in texts {
            if !s.contains(&t) {
                out.fail("ast:text-not-in-source", case(), format!("{:?} does not occur in the input", t));
                break;
            }
        }
    }
}

impl Prop for C10 {
    fn id(&self) -> &'static str {
        "C10"
    }
    fn plan(&self, tier: Tier) -> Plan {
        let sw = sweeps(tier);
        let mut stages: Vec<Stage> = sw
            .iter()
            .enumerate()
            .map(|(i, (cfg, s))| Stage {
                name: format!("{}{}", cfg, i),
                len: s.len(),
                chunk: (s.len() / 48).max(1000),
                timeout: Duration::from_secs(900),
                what: format!("operator set '{}': all strings of <= {} fragments over {} fragments", cfg, s.max_len, s.alphabet.len()),
            })
            .collect();
        stages.push(Stage {
            name: "long-tokens".into(),
            len: long_token_inputs(tier.pick(14, 17)).len() as u64,
            chunk: 200,
            timeout: Duration::from_secs(600),
            what: "one long token per input (39 shapes x every length 1..70 and 2^k-1, 2^k, 2^k+1): spans, texts and kinds against the reference lexer".into(),
        });
        Plan {
            stages,
            rule: format!(
                "every string of <= L fragments under three operator sets (built-ins; + registered symbolic chains {:?}; + registered word / non-identifier operators {:?}), L per stage in 'stages'; \
                 engine token stream from the tokenize hook checked for tiling invariants and compared token by token with the reference lexer; non-trivial = >= 2 tokens, distinct = distinct token-kind sequence",
                config_ops("symbolic").iter().map(|x| x.0).collect::<Vec<_>>(),
                config_ops("words").iter().map(|x| x.0).collect::<Vec<_>>()
            ),
            assumptions: vec![
                "registered symbolic operators are prefix-closed chains (greedy extension is what is documented)".into(),
                "when both lexers reject, only rejection is compared (which lexical error is reported first is not specified)".into(),
            ],
            exhaustive: true,
            bound: format!("all three operator sets L={} (+ L={} over the 16-fragment sub-alphabet for the registered sets)", tier.pick(4, 5), tier.pick(5, 6)),
            states_note: "states = strings enumerated per operator set; transitions = one-fragment extensions".into(),
        }
    }
    fn run(&self, tier: Tier, stage: usize, a: u64, b: u64, out: &mut WorkerOut) {
        let sw = sweeps(tier);
        if stage == sw.len() {
            let inputs = long_token_inputs(tier.pick(14, 17));
            let ops = OpSet::builtin();
            for i in a..b {
                out.at(i);
                let (name, text) = &inputs[i as usize];
                let mut tmp = WorkerOut::default();
                check_tokens(text, &ops, "long-tokens", &mut tmp);
                let fails = std::mem::take(&mut tmp.fails);
                out.merge(tmp);
                for (k, (f, _)) in fails {
                    out.fail(k, format!("long-tokens|{}", name), f.detail.chars().take(300).collect::<String>());
                }
            }
            out.count("states", b - a);
            out.count("transitions", b - a);
            return;
        }
        let (cfg, strings) = &sw[stage];
        let xthread = cfg.ends_with("-xthread");
        let cfg = &cfg.trim_end_matches("-xthread");
        let primed = cfg.ends_with("-primed");
        let cfg = &cfg.trim_end_matches("-primed");
        if primed {
            let before = OpSet::builtin();
            let prime = Strings::new(&alphabet(cfg, false), 2);
            for i in 0..prime.len() {
                check_tokens(&prime.get(i), &before, "priming", out);
            }
        }
        let ops = if xthread {
            let c = cfg.to_string();
            std::thread::spawn(move || install(&c)).join().expect("registration thread")
        } else {
            install(cfg)
        };
        let name = format!("{}{}", sw[stage].0, stage);
        for i in a..b {
            out.at(i);
            let s = strings.get(i);
            check_tokens(&s, &ops, &name, out);
            if i % 50_021 == 11 {
                out.sample(format!("[{}] {}", cfg, show(&s)));
            }
        }
        out.count("states", b - a);
        out.count("transitions", b - a);
    }
    fn case_text(&self, tier: Tier, stage: usize, i: u64) -> String {
        let sw = sweeps(tier);
        if stage == sw.len() {
            return long_token_inputs(tier.pick(14, 17))[i as usize].0.clone();
        }
        show(&sw[stage].1.get(i))
    }
    fn crash_key(&self, _t: Tier, _s: usize, _i: u64, how: &str) -> String {
        format!("{}:tokenize", how)
    }
}
