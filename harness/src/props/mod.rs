use crate::core::*;
use serde_json::{Map, Value as J};

pub mod common;
pub mod c01;
pub mod c02;
pub mod c03;
pub mod c04;
pub mod vals;
pub mod c05;
pub mod c06;
pub mod c07;
pub mod effects;
pub mod c08;
pub mod c09;
pub mod c10;
pub mod c11;
pub mod c12;
pub mod c13;
pub mod c14;
pub mod c15;
pub mod c16;
pub mod c17;
pub mod c18;
pub mod tokens;

pub fn all() -> Vec<&'static dyn Prop> {
    vec![&c01::C01, &c02::C02, &c03::C03, &c04::C04, &c05::C05, &c06::C06, &c07::C07, &c08::C08, &c09::C09, &c10::C10, &c11::C11, &c12::C12, &c13::C13, &c14::C14, &c15::C15, &c16::C16, &c17::C17, &c18::C18]
}

pub fn find(id: &str) -> Option<&'static dyn Prop> {
    all().into_iter().find(|p| p.id() == id)
}

pub fn extra_evidence(_id: &str, _tier: Tier, _res: &CheckResult) -> Map<String, J> {
    Map::new()
}

/// Re-run the case recorded in a replay file twice; both runs must agree.
pub fn replay(id: &str, file: &str) -> i32 {
    let p = match find(id) {
        Some(p) => p,
        None => return 2,
    };
    let body = match std::fs::read_to_string(file) {
        Ok(b) => b,
        Err(e) => {
            eprintln!("cannot read {}: {}", file, e);
            return 2;
        }
    };
    let j: J = match serde_json::from_str(&body) {
        Ok(j) => j,
        Err(_) => return 2,
    };
    let case = j.get("case").and_then(|c| c.as_str()).unwrap_or("").to_string();
    let tier = Tier::parse(j.get("tier").and_then(|c| c.as_str()).unwrap_or("quick"));
    let loc = match (j.get("stage").and_then(|x| x.as_u64()), j.get("idx").and_then(|x| x.as_u64())) {
        (Some(s), Some(i)) => Some((s as usize, i)),
        _ => None,
    };
    if id == "C13" {
        // show that the recorded schedule is deterministic before judging it
        if let Some(ch) = case.split("choices=").nth(1) {
            let w = case.split('|').next().unwrap_or("");
            let a = c13::replay_schedule(w, ch);
            let b = c13::replay_schedule(w, ch);
            println!("replay: schedule {} of {} gives {:?}", ch, w, a);
            if a != b {
                println!("REPLAY-NONDETERMINISTIC: second run gives {:?}", b);
                return 2;
            }
        }
    }
    let run = || {
        let mut out = WorkerOut::default();
        match loc {
            Some((s, i)) => {
                out.stage = Some(s);
                p.run(tier, s, i, i + 1, &mut out)
            }
            None => common::replay_case(p, tier, &case, &mut out),
        }
        out.fails.iter().map(|(k, (f, _))| format!("{} :: {}", k, f.detail)).collect::<Vec<_>>()
    };
    let r1 = run();
    let r2 = run();
    if r1 != r2 {
        println!("REPLAY-NONDETERMINISTIC: {:?} vs {:?}", r1, r2);
        return 2;
    }
    let recorded_key = j.get("key").and_then(|c| c.as_str()).unwrap_or("").to_string();
    let r1: Vec<String> = if r1.iter().any(|l| l.starts_with(&format!("{} ::", recorded_key))) {
        r1.into_iter().filter(|l| l.starts_with(&format!("{} ::", recorded_key))).collect()
    } else {
        r1
    };
    if r1.is_empty() {
        println!("replay: case passes: {}", case);
        0
    } else {
        for l in &r1 {
            println!("replay: {}", l);
        }
        let known = load_known(&format!("{}/known_findings.txt", verif_root()));
        let all_known = r1.iter().all(|l| {
            let key = l.split(" :: ").next().unwrap_or("");
            known.iter().any(|k| k.status == "open" && k.property == id && k.key == key)
        });
        if all_known {
            println!("KNOWN-FINDING: property={} {} (replayed)", id, recorded_key);
            return 0;
        }
        println!("VIOLATION property={} replay={}", id, file);
        1
    }
}

pub fn child(args: &[String]) -> i32 {
    if args.len() >= 3 && (args[0] == "sched" || args[0] == "seq") {
        return c13::child_main(args);
    }
    2
}
