//! Helpers shared by the property modules.
use crate::core::*;

/// Σ_f: one fragment per character class / shortcut the tokenizer distinguishes.
pub const FRAGMENTS: &[&str] = &[
    "a", "in", "x1", "_", ".", "true", "not", "AND", "beginWith", "0", "12", "1.5", "e", "E", "+", "-", "*", "=",
    "<", ">", "!", "&", "|", "?", ":", "(", ")", "[", "]", "{", "}", ",", ";", "'", "\"", " ", "\t", "\r", "\n",
    "é", "€", "😀",
    // characters Unicode calls whitespace but the language does not (1, 2 and 3 bytes)
    "\u{0b}", "\u{a0}", "\u{3000}",
];

/// Character-class completeness: one representative of every class a *standard-library*
/// predicate distinguishes but the language does not (`is_ascii_whitespace` differs from the
/// language's whitespace on form feed, `char::is_numeric` on non-ASCII digits, `is_alphanumeric`
/// on letters outside ASCII, `is_ascii_punctuation` on `#` `@` `~` `\\` ...), the remaining
/// operator-start characters and boolean spellings. Swept together with FRAGMENTS at a smaller L.
pub const FRAGMENTS_EXTRA: &[&str] = &[
    "\u{0c}", "\u{85}", "\u{2028}", "\u{200b}", "\u{feff}", "\u{301}", "\0", "\u{7f}",
    "\u{663}", "\u{b2}", "\u{2167}", "\u{c9}", "\u{df}",
    "\\", "#", "@", "$", "~", "`", "/", "%", "^",
    "True", "false", "False", "TRUE", "OR", "or", "endWith", "00",
];

pub fn fragments_wide() -> Vec<&'static str> {
    let mut v = FRAGMENTS.to_vec();
    v.extend_from_slice(FRAGMENTS_EXTRA);
    v
}

/// 16-fragment sub-alphabet: one per tokenizer branch, all three multi-byte widths kept.
pub const FRAGMENTS_SMALL: &[&str] =
    &["a", "in", "1.5", "e", "+", "<", "=", "!", "(", ")", ",", "'", " ", "é", "€", "😀"];

pub fn normalise_panic(msg: &str) -> String {
    let mut s: String = msg
        .chars()
        .map(|c| if c.is_ascii_digit() { '#' } else { c })
        .collect();
    // collapse runs of '#'
    while s.contains("##") {
        s = s.replace("##", "#");
    }
    // drop quoted payloads (they contain the input)
    if let Some(i) = s.find('`') {
        s.truncate(i);
    }
    s.chars().take(70).collect::<String>().trim().replace(' ', "_")
}

/// A recorded case is "<stage name>|<text>". The case is located in the named stage by its
/// text: first an exact match of `case_text(i)`, else the longest `case_text(i)` that is a
/// prefix of the recorded text (checks append details such as the fault position).
pub fn replay_case(p: &dyn Prop, tier: Tier, case: &str, out: &mut WorkerOut) {
    let (stage_name, text) = match case.split_once('|') {
        Some(x) => x,
        None => ("", case),
    };
    let plan = p.plan(tier);
    for (si, st) in plan.stages.iter().enumerate() {
        if st.name != stage_name {
            continue;
        }
        let mut best: Option<(u64, usize)> = None;
        let limit = st.len.min(5_000_000);
        let mut i = 0;
        while i < limit {
            let t = p.case_text(tier, si, i);
            if t == text {
                best = Some((i, usize::MAX));
                break;
            }
            if !t.is_empty() && text.starts_with(&t) && best.map(|b| t.len() > b.1).unwrap_or(true) {
                best = Some((i, t.len()));
            }
            i += 1;
        }
        if let Some((i, _)) = best {
            p.run(tier, si, i, i + 1, out);
            return;
        }
    }
    out.fail("replay:case-not-found", case, "the recorded case is not in this tier's space (try the tier recorded in the file)");
}
