//! Helpers shared by the property modules.
use crate::core::*;

/// Σ_f: one fragment per character class / shortcut the tokenizer distinguishes.
pub const FRAGMENTS: &[&str] = &[
    "a", "in", "x1", "_", ".", "true", "not", "AND", "beginWith", "0", "12", "1.5", "e", "E", "+", "-", "*", "=",
    "<", ">", "!", "&", "|", "?", ":", "(", ")", "[", "]", "{", "}", ",", ";", "'", "\"", " ", "\t", "\r", "\n",
    "é", "€", "😀",
];

/// 16-fragment sub-alphabet: one per tokenizer branch, all three multi-byte widths kept.
pub const FRAGMENTS_SMALL: &[&str] =
    &["a", "in", "1.5", "e", "+", "<", "=", "!", "(", ")", ",", "'", " ", "é", "€", "😀"];

pub fn normalise_panic(msg: &str) -> String {
    let mut s: String = msg
        .chars()
        .map(|c| if c.is_ascii_digit() { '#' } else { c })
        .collect();
    // collapse runs of '#'
    while s.contains("##") {
        s = s.replace("##", "#");
    }
    // drop quoted payloads (they contain the input)
    if let Some(i) = s.find('`') {
        s.truncate(i);
    }
    s.chars().take(70).collect::<String>().trim().replace(' ', "_")
}

/// A case string is "<stage name>|<case text>"; properties that support replay
/// implement `replay_text`.
pub fn replay_case(p: &dyn Prop, tier: Tier, case: &str, out: &mut WorkerOut) {
    let (stage_name, text) = match case.split_once('|') {
        Some(x) => x,
        None => ("", case),
    };
    let plan = p.plan(tier);
    // find the case index by text within the named stage (bounded scan)
    for (si, st) in plan.stages.iter().enumerate() {
        if st.name != stage_name {
            continue;
        }
        let mut i = 0;
        while i < st.len {
            if p.case_text(tier, si, i) == text {
                p.run(tier, si, i, i + 1, out);
                return;
            }
            i += 1;
        }
    }
    out.fail("replay:case-not-found", case, "the recorded case is not in this tier's space");
}
