//! Helpers shared by the property modules.
use crate::core::*;

/// Σ_f: one fragment per character class / shortcut the tokenizer distinguishes.
pub const FRAGMENTS: &[&str] = &[
    "a", "in", "x1", "_", ".", "true", "not", "AND", "beginWith", "0", "12", "1.5", "e", "E", "+", "-", "*", "=",
    "<", ">", "!", "&", "|", "?", ":", "(", ")", "[", "]", "{", "}", ",", ";", "'", "\"", " ", "\t", "\r", "\n",
    "é", "€", "😀",
    // characters Unicode calls whitespace but the language does not (1, 2 and 3 bytes)
    "\u{0b}", "\u{a0}", "\u{3000}",
];

/// Character-class completeness: one representative of every class a *standard-library*
/// predicate distinguishes but the language does not (`is_ascii_whitespace` differs from the
/// language's whitespace on form feed, `char::is_numeric` on non-ASCII digits, `is_alphanumeric`
/// on letters outside ASCII, `is_ascii_punctuation` on `#` `@` `~` `\\` ...), the remaining
/// operator-start characters and boolean spellings. Swept together with FRAGMENTS at a smaller L.
pub const FRAGMENTS_EXTRA: &[&str] = &[
    "\u{0c}", "\u{85}", "\u{2028}", "\u{200b}", "\u{feff}", "\u{301}", "\0", "\u{7f}",
    "\u{663}", "\u{b2}", "\u{2167}", "\u{c9}", "\u{df}",
    "\\", "#", "@", "$", "~", "`", "/", "%", "^",
    "True", "false", "False", "TRUE", "OR", "or", "endWith", "00",
];

pub fn fragments_wide() -> Vec<&'static str> {
    let mut v = FRAGMENTS.to_vec();
    v.extend_from_slice(FRAGMENTS_EXTRA);
    v
}

/// 16-fragment sub-alphabet: one per tokenizer branch, all three multi-byte widths kept.
pub const FRAGMENTS_SMALL: &[&str] =
    &["a", "in", "1.5", "e", "+", "<", "=", "!", "(", ")", ",", "'", " ", "é", "€", "😀"];

/// Long single tokens: for every token class a few shapes, at every length 1..=70 and at
/// 2^7..2^top (fixed-size buffers, digit-count and scale limits, length fields). Each input is
/// (shape name, text).
pub fn long_token_inputs(top: u32) -> Vec<(String, String)> {
    let mut sizes: Vec<usize> = (1..=70).collect();
    for k in 7..=top {
        sizes.push(1 << k);
        sizes.push((1 << k) + 1);
        sizes.push((1 << k) - 1);
    }
    let shapes: Vec<(&str, Box<dyn Fn(usize) -> String>)> = vec![
        ("digits-9", Box::new(|n| "9".repeat(n))),
        ("digits-0", Box::new(|n| "0".repeat(n))),
        ("power-of-ten", Box::new(|n| format!("1{}", "0".repeat(n)))),
        ("fraction-zeros-then-1", Box::new(|n| format!("0.{}1", "0".repeat(n)))),
        ("fraction-zeros", Box::new(|n| format!("1.{}", "0".repeat(n)))),
        ("fraction-9", Box::new(|n| format!("0.{}", "9".repeat(n)))),
        ("fraction-1-then-zeros", Box::new(|n| format!("0.1{}", "0".repeat(n)))),
        ("int-and-fraction", Box::new(|n| format!("{}.{}", "1".repeat(n), "1".repeat(n)))),
        ("dots", Box::new(|n| format!("1{}", ".".repeat(n)))),
        ("exponent", Box::new(|n| format!("1e{}", "9".repeat(n)))),
        ("number-in-sum", Box::new(|n| format!("1 + 0.{}1 * 2", "0".repeat(n)))),
        // malformed numbers whose malformation comes after n fraction digits
        ("fraction-then-e", Box::new(|n| format!("1.{}e", "0".repeat(n)))),
        ("fraction-then-dot", Box::new(|n| format!("1.{}.", "0".repeat(n)))),
        ("fraction-then-exponent", Box::new(|n| format!("0.{}1e5", "0".repeat(n)))),
        ("fraction-then-dot-digit", Box::new(|n| format!("1.{}.5", "3".repeat(n)))),
        ("integer-then-e", Box::new(|n| format!("{}e", "7".repeat(n)))),
        ("name-a", Box::new(|n| "a".repeat(n))),
        ("name-dots", Box::new(|n| format!("a{}", ".".repeat(n)))),
        ("name-underscores", Box::new(|n| "_".repeat(n))),
        ("name-multibyte", Box::new(|n| "\u{e9}".repeat(n))),
        ("call-long-name", Box::new(|n| format!("{}(1)", "f".repeat(n)))),
        ("string-a", Box::new(|n| format!("'{}'", "a".repeat(n)))),
        ("string-multibyte", Box::new(|n| format!("\"{}\"", "\u{20ac}".repeat(n)))),
        ("string-unterminated", Box::new(|n| format!("'{}", "a".repeat(n)))),
        ("string-of-quotes", Box::new(|n| format!("'{}'", "\"".repeat(n)))),
        ("plus-run", Box::new(|n| format!("1{}", "+".repeat(n)))),
        ("minus-run-prefix", Box::new(|n| format!("{}1", "-".repeat(n)))),
        ("bang-run", Box::new(|n| format!("{}true", "!".repeat(n)))),
        ("equals-run", Box::new(|n| format!("a{}1", "=".repeat(n)))),
        ("less-run", Box::new(|n| format!("1{}2", "<".repeat(n)))),
        ("amp-run", Box::new(|n| format!("1{}2", "&".repeat(n)))),
        ("question-run", Box::new(|n| format!("a{}1:2", "?".repeat(n)))),
        ("spaces-before", Box::new(|n| format!("{}1", " ".repeat(n)))),
        ("mixed-whitespace-inside", Box::new(|n| format!("f{}(1{}){}", " \t\r\n".repeat(n), "\n".repeat(n), "\t".repeat(n)))),
        ("control-char-names-in-blank-runs", Box::new(|n| format!("{}\u{1}{}a{}\u{1f}{}", " ".repeat(n), " ".repeat(n), "\t".repeat(n), "\n".repeat(n)))),
        ("semicolons", Box::new(|n| format!("1{}", ";".repeat(n)))),
        ("commas", Box::new(|n| format!("[1{}]", ",".repeat(n)))),
        ("word-operator-lookalike", Box::new(|n| format!("1 in{} [1]", "n".repeat(n)))),
        ("true-lookalike", Box::new(|n| format!("true{}", "e".repeat(n)))),
    ];
    // shapes that are many tokens (one per character): the engine's token look-ahead and prefix
    // recursion are quadratic / stack-deep in the token count — C01's depth ladder owns those
    // sizes (and their known findings); here they stop at 257
    let many_tokens = ["name-multibyte", "minus-run-prefix", "bang-run", "semicolons", "plus-run"];
    let mut v = Vec::new();
    for (name, f) in &shapes {
        for n in &sizes {
            if many_tokens.contains(name) && *n > 257 {
                continue;
            }
            let t = f(*n);
            // the token where a separator or a closing delimiter is expected (the position at
            // which the parser reports what it found), and as a well-placed element
            if *n <= 70 || *n == 128 || *n == 256 {
                for (ctx, text) in [
                    ("after-list-element", format!("[1 {}]", t)),
                    ("after-argument", format!("f(1 {})", t)),
                    ("after-map-key", format!("{{1 {}}}", t)),
                    ("after-then-branch", format!("true ? 1 {}", t)),
                    ("as-list-element", format!("[{}, 1]", t)),
                    ("after-open-paren", format!("(1 {}", t)),
                ] {
                    v.push((format!("{}:{} n={}", name, ctx, n), text));
                }
            }
            v.push((format!("{} n={}", name, n), t));
        }
    }
    v
}

pub fn normalise_panic(msg: &str) -> String {
    let mut s: String = msg
        .chars()
        .map(|c| if c.is_ascii_digit() { '#' } else { c })
        .collect();
    // collapse runs of '#'
    while s.contains("##") {
        s = s.replace("##", "#");
    }
    // drop quoted payloads (they contain the input)
    if let Some(i) = s.find('`') {
        s.truncate(i);
    }
    s.chars().take(70).collect::<String>().trim().replace(' ', "_")
}

/// A recorded case is "<stage name>|<text>". The case is located in the named stage by its
/// text: first an exact match of `case_text(i)`, else the longest `case_text(i)` that is a
/// prefix of the recorded text (checks append details such as the fault position).
pub fn replay_case(p: &dyn Prop, tier: Tier, case: &str, out: &mut WorkerOut) {
    let (stage_name, text) = match case.split_once('|') {
        Some(x) => x,
        None => ("", case),
    };
    let plan = p.plan(tier);
    for (si, st) in plan.stages.iter().enumerate() {
        if st.name != stage_name {
            continue;
        }
        let mut best: Option<(u64, usize)> = None;
        let limit = st.len.min(5_000_000);
        let mut i = 0;
        while i < limit {
            let t = p.case_text(tier, si, i);
            if t == text {
                best = Some((i, usize::MAX));
                break;
            }
            if !t.is_empty() && text.starts_with(&t) && best.map(|b| t.len() > b.1).unwrap_or(true) {
                best = Some((i, t.len()));
            }
            i += 1;
        }
        if let Some((i, _)) = best {
            p.run(tier, si, i, i + 1, out);
            return;
        }
    }
    out.fail("replay:case-not-found", case, "the recorded case is not in this tier's space (try the tier recorded in the file)");
}
