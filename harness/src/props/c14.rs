//! C14 — handlers may re-enter the engine without deadlock. The full product
//! handler kind x re-entrant action, each case in a fresh process. The hook mutexes report a
//! re-lock by the owning thread at once (deterministic verdict); the per-case wall cap only
//! guards against primitives the hooks do not wrap.
use crate::core::*;
use crate::engine::{guarded, Res};
use expression_engine::{
    execute, parse_expression, register_function, register_infix_op, register_postfix_op, register_prefix_op, Context,
    InfixOpAssociativity, InfixOpType, Value,
};
use rust_decimal::Decimal;
use std::sync::atomic::{AtomicUsize, Ordering};
use std::sync::Arc;
use std::time::Duration;

pub struct C14;

pub const KINDS: &[&str] = &[
    "global-function",
    "global-function-shadowed-by-variable",
    "prefix-operator",
    "infix-operator",
    "setter-operator",
    "setter-operator-bound-target",
    "postfix-operator",
    "context-function-call",
    "context-function-bare-name",
    "context-function-bare-name-in-list",
    "context-function-bare-name-in-membership",
    "context-function-assignment-target",
];

/// the two public ways to evaluate: parse_expression(..).exec(ctx) and execute(.., ctx)
pub const ENTRIES: &[&str] = &["parse+exec", "execute"];

pub const ACTIONS: &[&str] = &[
    "parse",
    "execute-new-context",
    "execute-global-function",
    "execute-nested-depth2",
    "execute-nested-depth3",
    "register-function",
    "register-prefix",
    "register-infix",
    "register-postfix",
    "re-register-itself",
    "lock-own-context-read",
    "lock-own-context-write",
    "execute-on-own-context",
    "recurse-on-own-context-depth2",
    "recurse-on-own-context-depth3",
];

fn applies(_kind: &str, _action: &str) -> bool {
    // "lock the evaluating context" is spelled out for context functions; for the other kinds
    // it is the same promise as "may call execute" (on a Context sharing the handle)
    true
}

static DEPTH: AtomicUsize = AtomicUsize::new(0);
static RAN: AtomicUsize = AtomicUsize::new(0);

type H = Arc<dyn Fn(Vec<Value>) -> expression_engine::Result<Value> + Send + Sync>;

fn num(n: i64) -> Value {
    Value::Number(Decimal::from(n))
}

fn program(kind: &str) -> (&'static str, Value) {
    match kind {
        "global-function" | "global-function-shadowed-by-variable" | "context-function-call" => ("h(1) + 1", num(43)),
        "prefix-operator" => ("hpre 1", num(42)),
        "infix-operator" => ("1 hin 2", num(42)),
        "setter-operator" => ("x hset 2 ; x", num(42)),
        "setter-operator-bound-target" => ("v hset 2 ; v", num(42)),
        "postfix-operator" => ("1 hpo", num(42)),
        "context-function-bare-name" => ("h + 1", num(43)),
        "context-function-bare-name-in-list" => ("[v, h, v]", Value::List(vec![num(100), num(42), num(100)])),
        "context-function-bare-name-in-membership" => ("42 in [v, h] ? 1 : 2", num(1)),
        _ => ("h = 1 ; h", num(1)),
    }
}

/// a context that carries the handler (for the context-function kinds) and a variable
fn make_context(kind: &str, action: &'static str) -> Context {
    let mut ctx = Context::new();
    ctx.set_variable("v", num(100));
    if kind == "global-function-shadowed-by-variable" {
        ctx.set_variable("h", num(5));
    }
    // global handlers reach the evaluating context through this slot
    *CURRENT.lock().unwrap_or_else(|e| e.into_inner()) = Some(crate::engine::share(&ctx));
    if kind.starts_with("context-function") {
        let handle = ctx.0.clone();
        let k = kind.to_string();
        let h: H = Arc::new(move |_| {
            act(&k, action, Some({ let mut c = Context::new(); c.0 = handle.clone(); c }));
            Ok(num(42))
        });
        ctx.set_func("h", h);
    }
    ctx
}

fn register_global(kind: &str, action: &'static str) {
    let k = kind.to_string();
    let body = move || {
        let own = CURRENT.lock().unwrap_or_else(|e| e.into_inner()).as_ref().map(crate::engine::share);
        act(&k, action, own);
        Ok(num(42))
    };
    match kind {
        "global-function" | "global-function-shadowed-by-variable" => register_function("h", Arc::new(move |_| body())),
        "prefix-operator" => register_prefix_op("hpre", Arc::new(move |_| body())),
        "infix-operator" => register_infix_op("hin", 115, InfixOpType::CALC, InfixOpAssociativity::LEFT, Arc::new(move |_, _| body())),
        "setter-operator" | "setter-operator-bound-target" => register_infix_op("hset", 20, InfixOpType::SETTER, InfixOpAssociativity::RIGHT, Arc::new(move |_, _| body())),
        "postfix-operator" => register_postfix_op("hpo", Arc::new(move |_| body())),
        _ => {}
    }
}

/// a Context sharing the handle of the context under evaluation
static CURRENT: std::sync::Mutex<Option<Context>> = std::sync::Mutex::new(None);

/// what the handler does while the outer evaluation is in progress
fn act(kind: &str, action: &'static str, own: Option<Context>) {
    RAN.fetch_add(1, Ordering::SeqCst);
    let ok = |b: bool, what: &str| {
        if !b {
            panic!("re-entrant action '{}' gave a wrong result ({})", action, what);
        }
    };
    match action {
        "parse" => ok(parse_expression("1 + 2 * min(3, 4) ; [a, {b : c}]").is_ok(), "parse"),
        "execute-new-context" => ok(execute("1 + 2 * 3", Context::new()).ok() == Some(num(7)), "execute"),
        "execute-global-function" => ok(execute("max(1, 2) + sum(1, 2)", Context::new()).ok() == Some(num(5)), "execute"),
        "execute-nested-depth2" | "execute-nested-depth3" => {
            let limit = if action.ends_with('2') { 2 } else { 3 };
            let d = DEPTH.fetch_add(1, Ordering::SeqCst) + 1;
            if d < limit {
                let (prog, want) = program(kind);
                let mut ctx = make_context(kind, action);
                let r = parse_expression(prog).and_then(|t| t.exec(&mut ctx));
                ok(r.ok() == Some(want), "nested evaluation");
            }
            DEPTH.fetch_sub(1, Ordering::SeqCst);
        }
        "recurse-on-own-context-depth2" | "recurse-on-own-context-depth3" => {
            // bounded self-recursion: the same program again on the SAME context (so a context
            // function is reached again through the same name in the same context)
            let limit = if action.ends_with('2') { 2 } else { 3 };
            let d = DEPTH.fetch_add(1, Ordering::SeqCst) + 1;
            if d < limit {
                let (prog, want) = program(kind);
                let mut c = own.expect("own context");
                let r = parse_expression(prog).and_then(|t| t.exec(&mut c));
                ok(r.ok() == Some(want), "nested evaluation on the own context");
            }
            DEPTH.fetch_sub(1, Ordering::SeqCst);
        }
        "register-function" => {
            register_function("newfn", Arc::new(|_| Ok(num(5))));
            ok(execute("newfn()", Context::new()).ok() == Some(num(5)), "newfn()");
        }
        "register-prefix" => {
            register_prefix_op("npre", Arc::new(|_| Ok(num(6))));
            ok(execute("npre 1", Context::new()).ok() == Some(num(6)), "npre 1");
        }
        "register-infix" => {
            register_infix_op("nin", 100, InfixOpType::CALC, InfixOpAssociativity::LEFT, Arc::new(|_, _| Ok(num(7))));
            ok(execute("1 nin 2", Context::new()).ok() == Some(num(7)), "1 nin 2");
        }
        "register-postfix" => {
            register_postfix_op("npo", Arc::new(|_| Ok(num(8))));
            ok(execute("1 npo", Context::new()).ok() == Some(num(8)), "1 npo");
        }
        "re-register-itself" => {
            // replace the running handler by an equivalent constant one
            match kind {
                "global-function" | "global-function-shadowed-by-variable" => register_function("h", Arc::new(|_| Ok(num(42)))),
                "prefix-operator" => register_prefix_op("hpre", Arc::new(|_| Ok(num(42)))),
                "infix-operator" => register_infix_op("hin", 115, InfixOpType::CALC, InfixOpAssociativity::LEFT, Arc::new(|_, _| Ok(num(42)))),
                "setter-operator" | "setter-operator-bound-target" => register_infix_op("hset", 20, InfixOpType::SETTER, InfixOpAssociativity::RIGHT, Arc::new(|_, _| Ok(num(42)))),
                "postfix-operator" => register_postfix_op("hpo", Arc::new(|_| Ok(num(42)))),
                _ => {
                    if let Some(mut c) = own {
                        c.set_func("h2", Arc::new(|_| Ok(num(42))));
                    }
                }
            }
        }
        "lock-own-context-read" => {
            let c = own.expect("own context");
            let n = c.0.lock().map(|g| g.len()).unwrap_or(0);
            ok(n >= 1, "context entries");
            ok(c.get_variable("v") == Some(num(100)), "get_variable");
        }
        "lock-own-context-write" => {
            let mut c = own.expect("own context");
            c.set_variable("w", num(9));
            ok(c.get_variable("w") == Some(num(9)), "set then get");
        }
        "execute-on-own-context" => {
            let mut c = own.expect("own context");
            let r = parse_expression("v + 1").and_then(|t| t.exec(&mut c));
            ok(r.ok() == Some(num(101)), "v + 1 on own context");
        }
        _ => unreachable!(),
    }
}

fn cases() -> Vec<(&'static str, &'static str, &'static str)> {
    let mut v = Vec::new();
    for e in ENTRIES {
        for k in KINDS {
            for a in ACTIONS {
                if applies(k, a) {
                    v.push((*k, *a, *e));
                }
            }
        }
    }
    v
}

impl Prop for C14 {
    fn id(&self) -> &'static str {
        "C14"
    }
    fn plan(&self, _tier: Tier) -> Plan {
        let n = cases().len() as u64;
        Plan {
            stages: vec![Stage {
                name: "reentry".into(),
                len: n,
                chunk: 1,
                timeout: Duration::from_secs(20),
                what: "handler kind x re-entrant action, one fresh process each (registrations cannot be undone)".into(),
            }],
            rule: format!(
                "the full product of {} handler kinds (global function, prefix / infix / setter / postfix operator, context function by call, by bare name and as assignment target) x {} re-entrant actions (parse, execute, execute a global function, same handler nested to depth 2 and 3, register_function / prefix / infix / postfix, re-register itself, and for context functions: lock the evaluating context's handle for reading, writing, and evaluate on it) — {} cases. \
                 Oracle: the outer evaluation returns its normal value, the action saw correct results, the handler really ran, and no thread re-locked a mutex it holds (reported by the hook mutex) or hung (wall cap). distinct = distinct (kind, action)",
                KINDS.len(),
                ACTIONS.len(),
                n
            ),
            assumptions: vec![
                "locking the evaluating context is promised for context functions only, as the property words it".into(),
                "a re-lock of a std mutex by its owner is reported by the verif_hooks wrapper instead of hanging; the 20 s cap covers primitives that are not wrapped".into(),
            ],
            exhaustive: true,
            bound: "nesting depth 3".into(),
            states_note: "states = (kind, action) cases; transitions = handler invocations observed".into(),
        }
    }
    fn run(&self, _tier: Tier, _stage: usize, a: u64, b: u64, out: &mut WorkerOut) {
        let cs = cases();
        for i in a..b {
            out.at(i);
            let (kind, action, entry) = cs[i as usize];
            let case = format!("reentry|{} x {} via {}", kind, action, entry);
            expression_engine::verif_hooks::sync::clear_self_deadlock();
            RAN.store(0, Ordering::SeqCst);
            register_global(kind, action);
            let (prog, want) = program(kind);
            let mut ctx = make_context(kind, action);
            let r = if entry == "execute" {
                guarded(|| execute(prog, ctx).map_err(|e| format!("{:?}", e)))
            } else {
                guarded(|| parse_expression(prog).and_then(|t| t.exec(&mut ctx)).map_err(|e| format!("{:?}", e)))
            };
            out.evals += 1;
            out.count("states", 1);
            out.count("transitions", RAN.load(Ordering::SeqCst) as u64);
            out.nontrivial.insert(hash64(&case));
            out.sample(format!("{} in {:?}", case, prog));
            let deadlock = expression_engine::verif_hooks::sync::self_deadlock_seen();
            match r {
                _ if deadlock => {
                    out.outcomes.insert("self-deadlock".into());
                    out.fail(format!("self-deadlock:{}:{}:{}", kind, action, entry), case, "a thread tried to lock a mutex it already holds while the handler re-entered the engine");
                }
                Res::Ok(v) if v == want && RAN.load(Ordering::SeqCst) >= 1 => {
                    out.outcomes.insert(format!("completed:{}", kind));
                    out.count("validated", 1);
                }
                Res::Ok(v) => out.fail(format!("wrong-result:{}:{}:{}", kind, action, entry), case, format!("expected {:?} got {:?} (handler ran {} times)", want, v, RAN.load(Ordering::SeqCst))),
                Res::Err(e) => out.fail(format!("error:{}:{}:{}", kind, action, entry), case, e),
                Res::Panic(m) => out.fail(format!("panic:{}:{}:{}", kind, action, entry), case, m),
            }
        }
    }
    fn case_text(&self, _tier: Tier, _stage: usize, i: u64) -> String {
        let (k, a, e) = cases()[i as usize];
        format!("{} x {} via {}", k, a, e)
    }
    fn crash_key(&self, _tier: Tier, _stage: usize, i: u64, how: &str) -> String {
        let (k, a, e) = cases()[i as usize];
        format!("{}:{}:{}:{}", if how == "hang" { "deadlock-or-hang" } else { "abort" }, k, a, e)
    }
    fn min_outcomes(&self) -> usize {
        4
    }
}
