//! C01 — parsing is total: every string gives Ok or Err; never a panic, abort or hang;
//! every returned AST renders with expr() and describe().
use super::common::*;
use crate::core::*;
use crate::engine::{self, Res};
use super::tokens::{TokenSeqs, TOKENS};
use crate::gen::{show, Strings};
use crate::model::lex::{kinds, lex, OpSet};
use std::time::{Duration, Instant};

pub struct C01;

fn sweeps(tier: Tier) -> Vec<Strings> {
    match tier {
        Tier::Quick => vec![Strings::new(FRAGMENTS, 4), Strings::new(&fragments_wide(), 3)],
        Tier::Thorough => vec![Strings::new(FRAGMENTS, 5), Strings::new(FRAGMENTS_SMALL, 6), Strings::new(&fragments_wide(), 4)],
    }
}

fn token_seqs(tier: Tier) -> TokenSeqs {
    TokenSeqs { alphabet: TOKENS.to_vec(), max_len: tier.pick(5, 6) }
}

pub const SHAPES: &[&str] = &[
    "paren-nest",
    "bracket-nest",
    "brace-nest",
    "prefix-chain",
    "not-chain",
    "ternary-then-nest",
    "ternary-else-nest",
    "call-nest",
    "left-chain",
    "right-chain",
    "ident-run",
    "stmt-run",
    "postfix-paren-nest",
    "wide-list",
    "wide-map-mixed-keys",
];

/// shapes whose parse/exec/render time is quadratic in n on the unchanged tree (sub-tree
/// clones per level, look-ahead re-tokenisation): slow, but terminating — not a hang
const QUADRATIC: &[&str] = &["bracket-nest", "brace-nest", "call-nest", "ident-run"];

/// (shape, n) cases of the ladder. Sizes are 2^1..2^top; for the quadratic-time shapes the
/// window 2^13..2^14 is left out (tens of seconds per case, no new information: they pass
/// at 2^12 and overflow the stack from 2^15 on).
fn ladder_cases(tier: Tier) -> Vec<(&'static str, u64)> {
    let top = tier.pick(17, 20);
    let mut v = Vec::new();
    for shape in SHAPES {
        for i in 1..=top {
            if QUADRATIC.contains(shape) && (i == 13 || i == 14) {
                continue;
            }
            v.push((*shape, 1u64 << i));
        }
    }
    v
}

pub fn ladder_input(shape: &str, n: usize) -> String {
    match shape {
        "paren-nest" => format!("{}1{}", "(".repeat(n), ")".repeat(n)),
        "bracket-nest" => format!("{}1{}", "[".repeat(n), "]".repeat(n)),
        "brace-nest" => format!("{}1{}", "{1:".repeat(n), "}".repeat(n)),
        "prefix-chain" => format!("{}1", "- ".repeat(n)),
        "not-chain" => format!("{}true", "not ".repeat(n)),
        "ternary-then-nest" => format!("{}1{}", "true ? ".repeat(n), " : 2".repeat(n)),
        "ternary-else-nest" => format!("{}2", "false ? 1 : ".repeat(n)),
        "call-nest" => format!("{}1{}", "max(".repeat(n), ")".repeat(n)),
        "left-chain" => format!("1{}", "+1".repeat(n)),
        "right-chain" => format!("{}1", "a=".repeat(n)),
        "ident-run" => "a ".repeat(n),
        "stmt-run" => "1;".repeat(n),
        "postfix-paren-nest" => format!("{}1{}", "(".repeat(n), ")++".repeat(n)),
        "wide-list" => format!("[{}1]", "1,".repeat(n)),
        // number keys and computed keys that start with a digit, interleaved (whatever orders or
        // groups the entries of a large map for rendering meets both kinds)
        "wide-map-mixed-keys" => format!("{{{}}}", (0..n).map(|i| if i % 2 == 0 { format!("{}:{}", i, i) } else { format!("{}+1:{}", i * 10, i) }).collect::<Vec<_>>().join(",")),
        _ => unreachable!(),
    }
}

/// sizes below this must never abort; at or above it an abort is classed "deep"
pub const DEEP: u64 = 1024;

fn check_string(s: &str, stage: &str, out: &mut WorkerOut) {
    let t0 = Instant::now();
    let case = || format!("{}|{}", stage, show(s));
    let parsed = engine::parse_full(s);
    out.outcomes.insert(format!("parse:{}", parsed.class()));
    match &parsed {
        Res::Panic(m) => out.fail(format!("panic:parse:{}", normalise_panic(m)), case(), m.clone()),
        Res::Ok(p) => {
            if let Res::Panic(m) = &p.expr {
                out.fail(format!("panic:expr:{}", normalise_panic(m)), case(), m.clone());
            }
            if let Res::Panic(m) = &p.describe {
                out.fail(format!("panic:describe:{}", normalise_panic(m)), case(), m.clone());
            }
        }
        Res::Err(_) => {}
    }
    let ex = engine::execute(s, expression_engine::Context::new());
    out.outcomes.insert(format!("execute:{}", ex.class()));
    if let Res::Panic(m) = &ex {
        out.fail(format!("panic:execute:{}", normalise_panic(m)), case(), m.clone());
    }
    if parsed.is_ok() != !matches!(ex, Res::Err(_) | Res::Panic(_)) && parsed.is_ok() == false && ex.is_ok() {
        out.fail("inconsistent:execute-ok-parse-err", case(), "execute returned Ok for a string parse_expression rejects");
    }
    if t0.elapsed() > Duration::from_secs(10) {
        out.fail("hang:slow-input", case(), format!("{:?} for a {}-byte input", t0.elapsed(), s.len()));
    }
    out.evals += 1;
}

impl Prop for C01 {
    fn id(&self) -> &'static str {
        "C01"
    }
    fn plan(&self, tier: Tier) -> Plan {
        let mut stages = Vec::new();
        for (i, sw) in sweeps(tier).iter().enumerate() {
            stages.push(Stage {
                name: format!("sweep{}", i),
                len: sw.len(),
                chunk: (sw.len() / 64).max(1000),
                timeout: Duration::from_secs(600),
                what: format!("all concatenations of <= {} fragments of a {}-fragment alphabet", sw.max_len, sw.alphabet.len()),
            });
        }
        let ts = token_seqs(tier);
        stages.push(Stage {
            name: "tokens".into(),
            len: ts.len(),
            chunk: (ts.len() / 64).max(2000),
            timeout: Duration::from_secs(1200),
            what: format!("all sequences of <= {} tokens over {} spellings (incl. an unterminated quote and a malformed number), space-separated", ts.max_len, ts.alphabet.len()),
        });
        stages.push(Stage {
            name: "ladder".into(),
            len: ladder_cases(tier).len() as u64,
            chunk: 1,
            timeout: Duration::from_secs(180),
            what: "recursive shape x size 2^i, each in its own process on an 8 MiB stack: parse, expr, describe, execute, drop".into(),
        });
        stages.push(Stage {
            name: "long-tokens".into(),
            len: long_token_inputs(tier.pick(14, 17)).len() as u64,
            chunk: 200,
            timeout: Duration::from_secs(600),
            what: "one long token per input: 39 shapes (digit runs, fractions with many zeros, names, strings, operator-character runs, whitespace runs, separators) at every length 1..70 and at 2^k-1, 2^k, 2^k+1".into(),
        });
        stages.push(Stage {
            name: "dev-long-tokens".into(),
            len: long_token_inputs(10).len() as u64,
            chunk: 400,
            timeout: Duration::from_secs(900),
            what: "the long-token inputs up to 2^10 and the malformed-number family again in the dev build of the engine (overflow checks and debug assertions on)".into(),
        });
        stages.push(Stage {
            name: "after-odd-registration".into(),
            len: 15,
            chunk: 1,
            timeout: Duration::from_secs(60),
            what: "fresh process: one register_infix_op call with a precedence outside the documented domain (0, negative, > 10^9, i32 extremes; what that call does is its own business), then every string of <= 2 fragments; cases 8-10: `?`, `:` and `not` registered as ordinary infix operators, then every sequence of <= 5 tokens over {1, x, +, *, ?, :, (, ), not, -}; cases 11-14: one infix operator / function / prefix / postfix operator registered 200,000 times over (a fresh handler each time, one that rejects ill-typed operands), then well-typed and ill-typed uses of it".into(),
        });
        let sw = sweeps(tier);
        Plan {
            stages,
            rule: format!(
                "every string of <= L fragments for each of these (L, alphabet size) pairs: {} (the base alphabet covers every tokenizer class incl. 2/3/4-byte chars; the widest one adds one representative per standard-library character class: form feed, NEL, zero-width space, BOM, combining mark, NUL, non-ASCII digits and letters, ASCII punctuation the language does not use, the remaining operator characters and boolean spellings); \
                 plus {} recursive shapes at sizes 2^1..2^{}; a case is non-trivial if the model lexer yields >= 2 tokens, distinct = distinct token-kind sequence (ladder: distinct shape/size)",
                sw.iter().map(|s| format!("(L={}, {} fragments)", s.max_len, s.alphabet.len())).collect::<Vec<_>>().join(", "),
                SHAPES.len(),
                tier.pick(17, 20)
            ),
            assumptions: vec![
                "totality is decided only for strings inside the stated bound; characters outside the alphabet fall into the tokenizer's catch-all class, which is represented".into(),
                "memory exhaustion is out of scope".into(),
            ],
            exhaustive: true,
            bound: format!("L={} fragments; ladder to 2^{}", sw[0].max_len, tier.pick(17, 20)),
            states_note: "states = strings enumerated (nodes of the fragment tree) + ladder inputs; transitions = one-fragment extensions".into(),
        }
    }
    fn run(&self, tier: Tier, stage: usize, a: u64, b: u64, out: &mut WorkerOut) {
        let sw = sweeps(tier);
        if stage < sw.len() {
            let ops = OpSet::builtin();
            let name = format!("sweep{}", stage);
            for i in a..b {
            out.at(i);
                let s = sw[stage].get(i);
                check_string(&s, &name, out);
                if let Ok(t) = lex(&s, &ops) {
                    if t.len() >= 2 {
                        out.nontrivial.insert(hash64(&kinds(&t)));
                    }
                }
                if i % 100_003 == 7 {
                    out.sample(show(&s));
                }
            }
            out.count("states", b - a);
            out.count("transitions", b - a);
            return;
        }
        if stage == sw.len() {
            let ts = token_seqs(tier);
            for i in a..b {
                out.at(i);
                let s = ts.spaced(i);
                check_string(&s, "tokens", out);
            }
            out.count("states", b - a);
            out.count("transitions", b - a);
            return;
        }
        if stage == sw.len() + 4 {
            use expression_engine::{InfixOpAssociativity, InfixOpType};
            let precs = [0, -1, -110, i32::MIN, i32::MAX, 1 << 30, 1_000_000_001, 1_073_741_824];
            let small = Strings::new(FRAGMENTS, 2);
            for i in a..b {
                out.at(i);
                if i >= 11 {
                    // a long registration history of ONE name: whatever a registration keeps of
                    // its predecessors (a chain, a list) is 200,000 long by now
                    use expression_engine::Value;
                    let kind = ["infix", "function", "prefix", "postfix"][(i - 11) as usize];
                    let r = engine::guarded(|| {
                        for _ in 0..200_000 {
                            match kind {
                                "infix" => expression_engine::register_infix_op("zzmany", 115, InfixOpType::CALC, InfixOpAssociativity::LEFT, std::sync::Arc::new(|a: Value, b: Value| Ok(Value::from(a.decimal()? + b.decimal()?)))),
                                "function" => expression_engine::register_function("zzmany", std::sync::Arc::new(|v: Vec<Value>| v.into_iter().next().unwrap_or(Value::None).decimal().map(Value::from))),
                                "prefix" => expression_engine::register_prefix_op("zzmany", std::sync::Arc::new(|a: Value| a.decimal().map(Value::from))),
                                _ => expression_engine::register_postfix_op("zzmany", std::sync::Arc::new(|a: Value| a.decimal().map(Value::from))),
                            }
                        }
                        Ok(())
                    });
                    let name = format!("after-odd-registration[{} registered 200000 times -> {}]", kind, r.class());
                    let progs: &[&str] = match kind {
                        "infix" => &["1 zzmany 2", "'a' zzmany 2", "1 zzmany [2]", "true zzmany false", "x = 1 zzmany 2 zzmany 'c'"],
                        "function" => &["zzmany(1)", "zzmany('a')", "zzmany()", "zzmany([1], 2)"],
                        "prefix" => &["zzmany 1", "zzmany 'a'", "zzmany zzmany true"],
                        _ => &["1 zzmany", "'a' zzmany", "[1] zzmany zzmany"],
                    };
                    for p in progs {
                        check_string(p, &name, out);
                    }
                    out.nontrivial.insert(hash64(&name));
                    continue;
                }
                if i >= 8 {
                    // grammar punctuation / keywords registered as ordinary infix operators
                    let word = ["?", ":", "not"][(i - 8) as usize];
                    let r = engine::guarded(|| {
                        expression_engine::register_infix_op(word, 115, InfixOpType::CALC, InfixOpAssociativity::LEFT, std::sync::Arc::new(|a, _| Ok(a)));
                        Ok(())
                    });
                    let name = format!("after-odd-registration[{:?} as infix operator -> {}]", word, r.class());
                    let seqs = TokenSeqs { alphabet: vec!["1", "x", "+", "*", "?", ":", "(", ")", "not", "-"], max_len: 5 };
                    for k in 0..seqs.len() {
                        check_string(&seqs.spaced(k), &name, out);
                    }
                    out.nontrivial.insert(hash64(&name));
                    continue;
                }
                let p = precs[i as usize % precs.len()];
                let r = engine::guarded(|| {
                    expression_engine::register_infix_op("zzodd", p, InfixOpType::CALC, InfixOpAssociativity::LEFT, std::sync::Arc::new(|a, _| Ok(a)));
                    Ok(())
                });
                let name = format!("after-odd-registration[precedence {} -> {}]", p, r.class());
                for k in 0..small.len() {
                    check_string(&small.get(k), &name, out);
                }
                out.nontrivial.insert(hash64(&name));
            }
            out.count("states", b - a);
            return;
        }
        if stage == sw.len() + 2 || stage == sw.len() + 3 {
            let dev = stage == sw.len() + 3;
            if dev != cfg!(debug_assertions) {
                out.fail("machinery:wrong-build-profile", "dev-long-tokens|profile".to_string(), format!("stage {} ran in a binary with debug_assertions={}", stage, cfg!(debug_assertions)));
                return;
            }
            let inputs = long_token_inputs(if dev { 10 } else { tier.pick(14, 17) });
            if a == 0 {
                // (once) the malformed-number family of C09, alone and inside an expression
                for t in super::c09::invalid_literals() {
                    check_string(&t, if dev { "dev-long-tokens" } else { "long-tokens" }, out);
                    check_string(&format!("[1, {} + 2]", t), if dev { "dev-long-tokens" } else { "long-tokens" }, out);
                }
            }
            for i in a..b {
                out.at(i);
                let (name, text) = &inputs[i as usize];
                // (the text can be 100 kB: the case is named by its shape and size)
                let mut tmp = WorkerOut::default();
                check_string(text, if dev { "dev-long-tokens" } else { "long-tokens" }, &mut tmp);
                let fails = std::mem::take(&mut tmp.fails);
                out.merge(tmp);
                for (k, (f, _)) in fails {
                    out.fail(k, format!("{}|{}", if dev { "dev-long-tokens" } else { "long-tokens" }, name), f.detail.chars().take(300).collect::<String>());
                }
                out.nontrivial.insert(hash64(name));
            }
            out.count("states", b - a);
            out.count("transitions", b - a);
            return;
        }
        // ladder: one case per process
        let cases = ladder_cases(tier);
        for i in a..b {
            out.at(i);
            let (shape, n) = cases[i as usize];
            let input = ladder_input(shape, n as usize);
            let shape_s = shape.to_string();
            let h = std::thread::Builder::new()
                .stack_size(8 << 20)
                .spawn(move || {
                    let mut o = WorkerOut::default();
                    let t0 = Instant::now();
                    let parsed = engine::parse_full(&input);
                    let case = format!("ladder|{} n={}", shape_s, n);
                    match &parsed {
                        Res::Panic(m) => o.fail(format!("panic:parse:{}", normalise_panic(m)), case.clone(), m.clone()),
                        Res::Ok(p) => {
                            if let Res::Panic(m) = &p.expr {
                                o.fail(format!("panic:expr:{}", normalise_panic(m)), case.clone(), m.clone());
                            }
                            if let Res::Panic(m) = &p.describe {
                                o.fail(format!("panic:describe:{}", normalise_panic(m)), case.clone(), m.clone());
                            }
                        }
                        Res::Err(_) => {}
                    }
                    o.outcomes.insert(format!("ladder-parse:{}", parsed.class()));
                    drop(parsed);
                    let ex = engine::execute(&input, expression_engine::Context::new());
                    if let Res::Panic(m) = &ex {
                        o.fail(format!("panic:execute:{}", normalise_panic(m)), case.clone(), m.clone());
                    }
                    o.outcomes.insert(format!("ladder-execute:{}", ex.class()));
                    let _ = t0;
                    o
                })
                .unwrap();
            match h.join() {
                Ok(o) => out.merge(o),
                Err(_) => out.fail("panic:ladder-thread", format!("ladder|{} n={}", shape, n), "ladder thread panicked"),
            }
            out.evals += 1;
            out.nontrivial.insert(hash64(&format!("{}:{}", shape, n)));
            out.sample(format!("ladder {} n={}", shape, n));
            out.count("states", 1);
            out.count("transitions", 1);
        }
    }
    fn case_text(&self, tier: Tier, stage: usize, i: u64) -> String {
        let sw = sweeps(tier);
        if stage < sw.len() {
            return show(&sw[stage].get(i));
        }
        if stage == sw.len() {
            return show(&token_seqs(tier).spaced(i));
        }
        if stage == sw.len() + 4 {
            return format!("odd registration {}", i);
        }
        if stage == sw.len() + 3 {
            return long_token_inputs(10)[i as usize].0.clone();
        }
        if stage == sw.len() + 2 {
            return long_token_inputs(tier.pick(14, 17))[i as usize].0.clone();
        }
        let (shape, n) = ladder_cases(tier)[i as usize];
        format!("{} n={}", shape, n)
    }
    fn crash_key(&self, tier: Tier, stage: usize, i: u64, how: &str) -> String {
        let sw = sweeps(tier);
        if stage <= sw.len() {
            return format!("{}:sweep-string", how);
        }
        if stage == sw.len() + 4 {
            return format!("{}:after-odd-registration", how);
        }
        if stage == sw.len() + 3 {
            return format!("{}:long-token:{}", how, long_token_inputs(10)[i as usize].0.split(' ').next().unwrap_or(""));
        }
        if stage == sw.len() + 2 {
            return format!("{}:long-token:{}", how, long_token_inputs(tier.pick(14, 17))[i as usize].0.split(' ').next().unwrap_or(""));
        }
        let (shape, n) = ladder_cases(tier)[i as usize];
        let class = if n >= DEEP { format!("deep(n>={})", DEEP) } else { format!("shallow(n<{})", DEEP) };
        let what = if how == "abort" { "abort:stack" } else { "hang" };
        format!("{}:{}:{}", what, shape, class)
    }
    fn min_outcomes(&self) -> usize {
        3
    }
}
