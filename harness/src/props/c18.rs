//! C18 — describe() renders each node with exactly the descriptor registered for it.
//! Every subset of 14 (kind, name) registrations — names deliberately shared between kinds —
//! crossed with every small AST over those kinds and names, against a reference rendering.
use super::common::normalise_panic;
use crate::core::*;
use crate::engine::{conv, guarded, Res};
use crate::gen::{relabel, show, trees_by_size, Kind};
use crate::model::lex::OpSet;
use crate::model::parse::{self, Ast, Parens};
use expression_engine::parse_expression;
use expression_engine::verif_hooks::DescriptorManager;
use std::sync::Arc;
use std::time::Duration;

pub struct C18;

/// (kind, name) registrations; bit i of a configuration = REGS[i] is registered
pub const REGS: &[(&str, &str)] = &[
    ("unary", "-"),
    ("unary", "++"),
    ("binary", "-"),
    ("binary", "+"),
    ("postfix", "++"),
    ("postfix", "--"),
    ("ternary", ""),
    ("function", "f"),
    ("function", "x"),
    ("reference", "x"),
    ("reference", "f"),
    ("list", ""),
    ("map", ""),
    ("chain", ""),
];

/// what a marker descriptor returns: 0 = its tag with all arguments (default), 1 = the empty
/// string, 2 = its tag wrapped in the separators the default renderings use, 3 / 4 = its tag
/// followed / preceded by a comma
static STYLE: std::sync::atomic::AtomicU8 = std::sync::atomic::AtomicU8::new(0);

fn mark(s: String) -> String {
    match STYLE.load(std::sync::atomic::Ordering::SeqCst) {
        0 => s,
        1 => String::new(),
        2 => format!(",{};:", s),
        // 3, 4: text that ends / starts with the separator of the default renderings
        3 => format!("{},", s),
        _ => format!(",{}", s),
    }
}

fn registered(cfg: u32, kind: &str, name: &str) -> bool {
    REGS.iter().enumerate().any(|(i, (k, n))| cfg & (1 << i) != 0 && *k == kind && (*n == name || n.is_empty()))
}

fn install(cfg: u32, clear: bool) {
    let mut m = DescriptorManager::new();
    if clear {
        m.verif_clear();
    }
    for (i, (kind, name)) in REGS.iter().enumerate() {
        if cfg & (1 << i) == 0 {
            continue;
        }
        let n = name.to_string();
        match *kind {
            "unary" => m.set_unary_descriptor(n.clone(), Arc::new(move |op, rhs| mark(format!("<U:{}:{}|{}>", n, op, rhs)))),
            "binary" => m.set_binary_descriptor(n.clone(), Arc::new(move |op, l, r| mark(format!("<B:{}:{}|{}|{}>", n, op, l, r)))),
            "postfix" => m.set_postfix_descriptor(n.clone(), Arc::new(move |lhs, op| mark(format!("<P:{}:{}|{}>", n, op, lhs)))),
            "ternary" => m.set_ternary_descriptor(Arc::new(|c, a, b| mark(format!("<T|{}|{}|{}>", c, a, b)))),
            "function" => m.set_function_descriptor(n.clone(), Arc::new(move |name, args| mark(format!("<F:{}:{}|{}>", n, name, args.join("|"))))),
            "reference" => m.set_reference_descriptor(n.clone(), Arc::new(move |name| mark(format!("<R:{}:{}>", n, name)))),
            "list" => m.set_list_descriptor(Arc::new(|items| mark(format!("<L|{}>", items.join("|"))))),
            "map" => m.set_map_descriptor(Arc::new(|items| mark(format!("<M|{}>", items.iter().map(|(k, v)| format!("{}={}", k, v)).collect::<Vec<_>>().join("|"))))),
            "chain" => m.set_chain_descriptor(Arc::new(|items| mark(format!("<C|{}>", items.join("|"))))),
            _ => unreachable!(),
        }
    }
}

/// reference rendering: the registered marker if (kind, name) is in the configuration,
/// otherwise the documented default
fn describe(a: &Ast, cfg: u32) -> String {
    match a {
        Ast::Num(d) => d.to_string(),
        Ast::Bool(b) => b.to_string(),
        Ast::Str(s) => {
            if s.contains('"') {
                format!("'{}'", s)
            } else {
                format!("\"{}\"", s)
            }
        }
        Ast::Ref(n) => {
            if registered(cfg, "reference", n) {
                mark(format!("<R:{}:{}>", n, n))
            } else {
                n.clone()
            }
        }
        Ast::Unary(op, x) => {
            let r = describe(x, cfg);
            if registered(cfg, "unary", op) {
                mark(format!("<U:{}:{}|{}>", op, op, r))
            } else {
                format!("{}{}", op, r)
            }
        }
        Ast::Binary(op, l, r) => {
            let (ls, rs) = (describe(l, cfg), describe(r, cfg));
            if registered(cfg, "binary", op) {
                mark(format!("<B:{}:{}|{}|{}>", op, op, ls, rs))
            } else {
                format!("{}{}{}", ls, op, rs)
            }
        }
        Ast::Postfix(x, op) => {
            let l = describe(x, cfg);
            if registered(cfg, "postfix", op) {
                mark(format!("<P:{}:{}|{}>", op, op, l))
            } else {
                format!("{}{}", l, op)
            }
        }
        Ast::Ternary(c, x, y) => {
            let (cs, xs, ys) = (describe(c, cfg), describe(x, cfg), describe(y, cfg));
            if registered(cfg, "ternary", "") {
                mark(format!("<T|{}|{}|{}>", cs, xs, ys))
            } else {
                format!("{}?{}:{}", cs, xs, ys)
            }
        }
        Ast::Func(n, args) => {
            let v: Vec<String> = args.iter().map(|x| describe(x, cfg)).collect();
            if registered(cfg, "function", n) {
                mark(format!("<F:{}:{}|{}>", n, n, v.join("|")))
            } else {
                format!("{}({})", n, v.join(","))
            }
        }
        Ast::List(items) => {
            let v: Vec<String> = items.iter().map(|x| describe(x, cfg)).collect();
            if registered(cfg, "list", "") {
                mark(format!("<L|{}>", v.join("|")))
            } else {
                format!("[{}]", v.join(","))
            }
        }
        Ast::Map(items) => {
            let v: Vec<(String, String)> = items.iter().map(|(k, x)| (describe(k, cfg), describe(x, cfg))).collect();
            if registered(cfg, "map", "") {
                mark(format!("<M|{}>", v.iter().map(|(k, x)| format!("{}={}", k, x)).collect::<Vec<_>>().join("|")))
            } else {
                format!("{{{}}}", v.iter().map(|(k, x)| format!("{}:{}", k, x)).collect::<Vec<_>>().join(","))
            }
        }
        Ast::Stmt(items) => {
            let v: Vec<String> = items.iter().map(|x| describe(x, cfg)).collect();
            if registered(cfg, "chain", "") {
                mark(format!("<C|{}>", v.join("|")))
            } else {
                v.join(";")
            }
        }
    }
}

/// a descriptor that must never show up once the real marker has been registered over it
fn install_decoy(i: usize) {
    let mut m = DescriptorManager::new();
    let (kind, name) = REGS[i];
    let n = name.to_string();
    match kind {
        "unary" => m.set_unary_descriptor(n, Arc::new(|_, _| "DECOY".into())),
        "binary" => m.set_binary_descriptor(n, Arc::new(|_, _, _| "DECOY".into())),
        "postfix" => m.set_postfix_descriptor(n, Arc::new(|_, _| "DECOY".into())),
        "ternary" => m.set_ternary_descriptor(Arc::new(|_, _, _| "DECOY".into())),
        "function" => m.set_function_descriptor(n, Arc::new(|_, _| "DECOY".into())),
        "reference" => m.set_reference_descriptor(n, Arc::new(|_| "DECOY".into())),
        "list" => m.set_list_descriptor(Arc::new(|_| "DECOY".into())),
        "map" => m.set_map_descriptor(Arc::new(|_| "DECOY".into())),
        _ => m.set_chain_descriptor(Arc::new(|_| "DECOY".into())),
    }
}

fn ops() -> OpSet {
    let mut o = OpSet::builtin();
    o.prefix.insert("++".into());
    o
}

fn rename_calls(t: &Ast, n: &mut usize) -> Ast {
    let mut go = |x: &Ast, n: &mut usize| rename_calls(x, n);
    match t {
        Ast::Func(_, v) => {
            let name = if *n % 2 == 0 { "f" } else { "x" };
            *n += 1;
            Ast::Func(name.into(), v.iter().map(|x| go(x, n)).collect())
        }
        Ast::Unary(op, x) => Ast::Unary(op.clone(), Box::new(go(x, n))),
        Ast::Postfix(x, op) => Ast::Postfix(Box::new(go(x, n)), op.clone()),
        Ast::Binary(op, l, r) => {
            let l2 = go(l, n);
            let r2 = go(r, n);
            Ast::Binary(op.clone(), Box::new(l2), Box::new(r2))
        }
        Ast::Ternary(a, b, c) => {
            let a2 = go(a, n);
            let b2 = go(b, n);
            let c2 = go(c, n);
            Ast::Ternary(Box::new(a2), Box::new(b2), Box::new(c2))
        }
        Ast::List(v) => Ast::List(v.iter().map(|x| go(x, n)).collect()),
        Ast::Stmt(v) => Ast::Stmt(v.iter().map(|x| go(x, n)).collect()),
        Ast::Map(v) => Ast::Map(
            v.iter()
                .map(|(k, x)| {
                    let k2 = go(k, n);
                    let x2 = go(x, n);
                    (k2, x2)
                })
                .collect(),
        ),
        o => o.clone(),
    }
}

/// program texts; every kind and both names of each, every kind nested in every other
fn programs(tier: Tier) -> Vec<String> {
    let kinds = vec![
        Kind::Prefix("-".into()),
        Kind::Prefix("++".into()),
        Kind::Prefix("!".into()),
        Kind::Infix("-".into()),
        Kind::Infix("+".into()),
        Kind::Infix("*".into()),
        Kind::Postfix("++".into()),
        Kind::Postfix("--".into()),
        Kind::Ternary,
        Kind::Call(0),
        Kind::Call(1),
        Kind::Call(2),
        Kind::List(0),
        Kind::List(2),
        Kind::Map(0),
        Kind::Map(1),
    ];
    let by = trees_by_size(&kinds, tier.pick(2, 3));
    let rot = vec![
        Ast::Ref("x".into()),
        Ast::Ref("f".into()),
        Ast::Num(rust_decimal::Decimal::new(15, 1)),
        Ast::Str("s".into()),
        Ast::Ref("y".into()),
        Ast::Bool(true),
        Ast::Str("q\"".into()),
    ];
    let o = ops();
    let mut out = vec![String::new(), "x".into(), "f".into(), "1".into()];
    let mut trees = Vec::new();
    for sz in by.iter().skip(1) {
        for t in sz {
            let mut n = 0;
            let mut c = 0;
            trees.push(rename_calls(&relabel(t, &mut n, &rot), &mut c));
        }
    }
    for t in &trees {
        out.push(parse::print(t, &o, Parens::Minimal));
    }
    // chains
    for (i, t) in trees.iter().enumerate().take(60) {
        out.push(parse::print(&Ast::Stmt(vec![t.clone(), trees[(i * 7 + 3) % trees.len()].clone()]), &o, Parens::Minimal));
    }
    out
}

/// (style, configuration) cases of the "styles" stage: every configuration with at most two
/// registrations and the full one, under marker styles 1 (empty string) and 2 (separators)
fn style_cases() -> Vec<(u8, u32)> {
    let n = REGS.len();
    let mut cfgs: Vec<u32> = vec![(1u32 << n) - 1];
    for i in 0..n {
        cfgs.push(1 << i);
        for j in (i + 1)..n {
            cfgs.push((1 << i) | (1 << j));
        }
    }
    let mut v = Vec::new();
    for style in [1u8, 2, 3, 4] {
        for c in &cfgs {
            v.push((style, *c));
        }
    }
    v
}

/// Stage "many": a growing registry. 70 registrations (reference and function descriptors for
/// names n00..n34, alternating kinds) made one after the other in one fresh process; after
/// each one every name is described both as a reference and as a call: exactly the names
/// registered so far use their marker, all others the default. Then every entry is replaced
/// by a second marker, checked the same way.
fn run_many(out: &mut WorkerOut) {
    const N: usize = 35;
    let name = |i: usize| format!("n{:02}", i);
    // state: per (kind, i) the generation registered (0 = none)
    let mut refs = vec![0u8; N];
    let mut funs = vec![0u8; N];
    let mut check = |refs: &[u8], funs: &[u8], step: &str, out: &mut WorkerOut| {
        for i in 0..N {
            for (text, want) in [
                (name(i), if refs[i] > 0 { format!("<R{}:{}>", refs[i], name(i)) } else { name(i) }),
                (format!("{}(1)", name(i)), if funs[i] > 0 { format!("<F{}:{}|1>", funs[i], name(i)) } else { format!("{}(1)", name(i)) }),
            ] {
                out.evals += 1;
                let got = guarded(|| parse_expression(&text).map(|t| t.describe()).map_err(|e| format!("{:?}", e)));
                match got {
                    Res::Ok(g) if g == want => {
                        out.count("validated", 1);
                        out.outcomes.insert(if want.contains('<') { "marker-used".into() } else { "default-used".into() });
                    }
                    other => {
                        let total = refs.iter().chain(funs.iter()).filter(|g| **g > 0).count();
                        let class = if total >= 16 { ">=16" } else { "<16" };
                        out.fail(format!("describe:many-registrations:{}:entries{}", if text.contains('(') { "function" } else { "reference" }, class), format!("many|{} then describe {:?}", step, text), format!("expected {:?} got {:?} with {} descriptors registered", want, other, total));
                        return;
                    }
                }
            }
        }
    };
    // descriptors registered BEFORE the operators they are for exist
    {
        use expression_engine::{InfixOpAssociativity, InfixOpType};
        let mut m = DescriptorManager::new();
        m.set_unary_descriptor("neg2".to_string(), Arc::new(|op, rhs| format!("<U:{}|{}>", op, rhs)));
        m.set_binary_descriptor("plus2".to_string(), Arc::new(|op, l, r| format!("<B:{}|{}|{}>", op, l, r)));
        m.set_postfix_descriptor("pf2".to_string(), Arc::new(|lhs, op| format!("<P:{}|{}>", op, lhs)));
        expression_engine::register_prefix_op("neg2", Arc::new(|v| Ok(v)));
        expression_engine::register_infix_op("plus2", 110, InfixOpType::CALC, InfixOpAssociativity::LEFT, Arc::new(|a, _| Ok(a)));
        expression_engine::register_postfix_op("pf2", Arc::new(|v| Ok(v)));
        for (text, want) in [("neg2 5", "<U:neg2|5>"), ("1 plus2 2", "<B:plus2|1|2>"), ("7 pf2", "<P:pf2|7>"), ("neg2 1 plus2 2 pf2", "<B:plus2|<U:neg2|1>|<P:pf2|2>>")] {
            out.evals += 1;
            let got = guarded(|| parse_expression(text).map(|t| t.describe()).map_err(|e| format!("{:?}", e)));
            if got != Res::Ok(want.to_string()) {
                out.fail("describe:descriptor-registered-before-its-operator", format!("many|descriptor first, operator second: {:?}", text), format!("expected {:?} got {:?}", want, got));
            }
        }
    }
    check(&refs, &funs, "nothing registered", out);
    for gen in [1u8, 2] {
        for k in 0..2 * N {
            let i = k / 2;
            let n = name(i);
            let mut m = DescriptorManager::new();
            if k % 2 == 0 {
                m.set_reference_descriptor(n.clone(), Arc::new(move |x| format!("<R{}:{}>", gen, x)));
                refs[i] = gen;
            } else {
                m.set_function_descriptor(n.clone(), Arc::new(move |x, args| format!("<F{}:{}|{}>", gen, x, args.join("|"))));
                funs[i] = gen;
            }
            check(&refs, &funs, &format!("registration {} of round {} ({} {})", k + 1, gen, if k % 2 == 0 { "reference" } else { "function" }, n), out);
            out.count("transitions", 1);
        }
    }
    out.count("states", 4 * N as u64);
    out.nontrivial.insert(hash64("many"));
}

/// names that collide with something if the registry key is built carelessly: the spelling of
/// the conditional, separators, the empty name (the unnamed kinds have none), kind names, and two
/// identifiers with the same 64-bit SipHash-1-3 (zero key) value, std's DefaultHasher
const ODD_NAMES: &[&str] = &["?:", "?", ":", "", ",", ";", "list", "map", "chain", "ternary", "LIST", "TERNARY", "[]", "-", "vfc5acb49f5ef8c21", "vac9e857a2d36f82b", "cfg", "cfg.", "cfg.limit", "cfg.a.b", "cfg.*", "*"];

/// Stage "cross-names": every single registration and every ordered pair of registrations over
/// {unary, binary, postfix, function, reference} x ODD_NAMES + {ternary, list, map, chain};
/// under each, one hand-assembled node per (kind, name) must render with its own descriptor if
/// that is registered and with the default otherwise.
fn run_cross_names(out: &mut WorkerOut) {
    use expression_engine::ExprAST as E;
    let mut regs: Vec<(&'static str, &'static str)> = Vec::new();
    for k in ["unary", "binary", "postfix", "function", "reference"] {
        for n in ODD_NAMES {
            regs.push((k, n));
        }
    }
    for k in ["ternary", "list", "map", "chain"] {
        regs.push((k, ""));
    }
    let leaf = |n: &'static str| E::Reference(n);
    let node = |k: &str, n: &'static str| -> (E<'static>, Vec<String>, String) {
        let s = |x: &str| x.to_string();
        match k {
            "unary" => (E::Unary(n, Box::new(leaf("a"))), vec![s(n), s("a")], format!("{}a", n)),
            "binary" => (E::Binary(n, Box::new(leaf("a")), Box::new(leaf("b"))), vec![s(n), s("a"), s("b")], format!("a{}b", n)),
            "postfix" => (E::Postfix(Box::new(leaf("a")), s(n)), vec![s("a"), s(n)], format!("a{}", n)),
            "function" => (E::Function(n, vec![leaf("a")]), vec![s(n), s("a")], format!("{}(a)", n)),
            "reference" => (E::Reference(n), vec![s(n)], s(n)),
            "ternary" => (E::Ternary(Box::new(leaf("a")), Box::new(leaf("b")), Box::new(leaf("c"))), vec![s("a"), s("b"), s("c")], s("a?b:c")),
            "list" => (E::List(vec![leaf("a"), leaf("b")]), vec![s("a"), s("b")], s("[a,b]")),
            "map" => (E::Map(vec![(leaf("a"), leaf("b"))]), vec![s("a=b")], s("{a:b}")),
            _ => (E::Stmt(vec![leaf("a"), leaf("b")]), vec![s("a"), s("b")], s("a;b")),
        }
    };
    let marker = |k: &str, n: &str, args: &[String]| format!("<{}:{}|{}>", k, n, args.join("|"));
    let register = |k: &'static str, n: &'static str| {
        let mut m = DescriptorManager::new();
        let name = n.to_string();
        match k {
            "unary" => m.set_unary_descriptor(name, Arc::new(move |op, rhs| format!("<unary:{}|{}|{}>", n, op, rhs))),
            "binary" => m.set_binary_descriptor(name, Arc::new(move |op, l, r| format!("<binary:{}|{}|{}|{}>", n, op, l, r))),
            "postfix" => m.set_postfix_descriptor(name, Arc::new(move |lhs, op| format!("<postfix:{}|{}|{}>", n, lhs, op))),
            "function" => m.set_function_descriptor(name, Arc::new(move |f, args| format!("<function:{}|{}|{}>", n, f, args.join("|")))),
            "reference" => m.set_reference_descriptor(name, Arc::new(move |r| format!("<reference:{}|{}>", n, r))),
            "ternary" => m.set_ternary_descriptor(Arc::new(|c, a, b| format!("<ternary:|{}|{}|{}>", c, a, b))),
            "list" => m.set_list_descriptor(Arc::new(|items| format!("<list:|{}>", items.join("|")))),
            "map" => m.set_map_descriptor(Arc::new(|items| format!("<map:|{}>", items.iter().map(|(k, v)| format!("{}={}", k, v)).collect::<Vec<_>>().join("|")))),
            _ => m.set_chain_descriptor(Arc::new(|items| format!("<chain:|{}>", items.join("|")))),
        }
    };
    let nodes: Vec<((&str, &str), (E<'static>, Vec<String>, String))> = regs.iter().map(|(k, n)| ((*k, *n), node(k, n))).collect();
    let mut judge = |set: &[(&'static str, &'static str)], out: &mut WorkerOut| {
        DescriptorManager::new().verif_clear();
        for (k, n) in set {
            register(k, n);
        }
        for ((k, n), (ast, args, default)) in &nodes {
            out.evals += 1;
            // leaves a, b, c are references too: none of the odd names is one of them
            let want = if set.contains(&(*k, *n)) { marker(k, n, args) } else { default.clone() };
            match guarded(|| Ok::<_, String>(ast.describe())) {
                Res::Ok(g) if g == want => {
                    out.count("validated", 1);
                    out.outcomes.insert(if want.starts_with('<') { "marker-used".into() } else { "default-used".into() });
                }
                other => {
                    let what = if set.iter().any(|(k2, n2)| k2 != k && n2 == n) { "same-name-other-kind" } else if set.iter().any(|(k2, _)| k2 == k) { "same-kind-other-name" } else { "unrelated" };
                    out.fail(format!("describe:cross-names:{}:registered-{}", k, what), format!("cross-names|registered {:?}; describe {} node named {:?}", set, k, n), format!("expected {:?} got {:?}", want, other));
                }
            }
        }
    };
    judge(&[], out);
    for a in &regs {
        judge(&[*a], out);
        for b in &regs {
            if a != b {
                judge(&[*a, *b], out);
            }
        }
        out.count("transitions", regs.len() as u64);
    }
    DescriptorManager::new().verif_clear();
    out.count("states", (regs.len() * regs.len() + 1) as u64);
    out.nontrivial.insert(hash64("cross-names"));
}

const HOSTILE: &[&str] = &["re-enters-describe", "re-enters-registration", "panics-once"];

/// Stage "hostile": a descriptor for REGS[i] that (a) itself calls parse + describe(), (b)
/// itself registers another descriptor, or (c) panics the first time it is called. The outer
/// describe() must return the marker rendering (a, b) / the panic must reach the caller as an
/// unwind (c); afterwards the normal marker is registered over it and every program must
/// render as the reference says — nothing may be left locked, poisoned or half updated.
fn run_hostile(i: usize, mode: &str, progs: &[String], out: &mut WorkerOut) {
    use std::sync::atomic::{AtomicBool, Ordering};
    let (kind, name) = REGS[i];
    let n = name.to_string();
    let case = format!("hostile|{} descriptor for {:?}", mode, REGS[i]);
    static FIRED: AtomicBool = AtomicBool::new(false);
    FIRED.store(false, Ordering::SeqCst);
    let mode_s = mode.to_string();
    // what the hostile descriptor does before it answers like the normal marker
    let act = move || {
        match mode_s.as_str() {
            "re-enters-describe" => {
                // (a program none of the registrations of REGS applies to)
                let inner = parse_expression("g(1)").map(|t| t.describe());
                assert_eq!(inner.ok().as_deref(), Some("g(1)"), "inner describe()");
            }
            "re-enters-registration" => {
                DescriptorManager::new().set_reference_descriptor("zzz".to_string(), Arc::new(|n| format!("<Z:{}>", n)));
            }
            _ => {
                if !FIRED.swap(true, Ordering::SeqCst) {
                    panic!("injected panic in a descriptor");
                }
            }
        }
    };
    let mut m = DescriptorManager::new();
    let a = act.clone();
    match kind {
        "unary" => m.set_unary_descriptor(n.clone(), Arc::new(move |op, rhs| { a(); mark(format!("<U:{}:{}|{}>", n, op, rhs)) })),
        "binary" => m.set_binary_descriptor(n.clone(), Arc::new(move |op, l, r| { a(); mark(format!("<B:{}:{}|{}|{}>", n, op, l, r)) })),
        "postfix" => m.set_postfix_descriptor(n.clone(), Arc::new(move |lhs, op| { a(); mark(format!("<P:{}:{}|{}>", n, op, lhs)) })),
        "ternary" => m.set_ternary_descriptor(Arc::new(move |c, x, y| { a(); mark(format!("<T|{}|{}|{}>", c, x, y)) })),
        "function" => m.set_function_descriptor(n.clone(), Arc::new(move |name, args| { a(); mark(format!("<F:{}:{}|{}>", n, name, args.join("|"))) })),
        "reference" => m.set_reference_descriptor(n.clone(), Arc::new(move |name| { a(); mark(format!("<R:{}:{}>", n, name)) })),
        "list" => m.set_list_descriptor(Arc::new(move |items| { a(); mark(format!("<L|{}>", items.join("|"))) })),
        "map" => m.set_map_descriptor(Arc::new(move |items| { a(); mark(format!("<M|{}>", items.iter().map(|(k, v)| format!("{}={}", k, v)).collect::<Vec<_>>().join("|"))) })),
        _ => m.set_chain_descriptor(Arc::new(move |items| { a(); mark(format!("<C|{}>", items.join("|"))) })),
    }
    let cfg = 1u32 << i;
    expression_engine::verif_hooks::sync::clear_self_deadlock();
    if mode == "panics-once" {
        // find a program that uses the descriptor: the first describe() that panics
        let mut seen = false;
        for p in progs {
            let r = guarded(|| parse_expression(p).map(|t| t.describe()).map_err(|e| format!("{:?}", e)));
            out.evals += 1;
            if let Res::Panic(msg) = r {
                if msg.contains("injected panic in a descriptor") {
                    seen = true;
                    out.outcomes.insert("descriptor-panic-propagated".into());
                } else {
                    out.fail(format!("hostile:{}:unexpected-panic:{}", mode, kind), case.clone(), msg);
                    return;
                }
                break;
            }
        }
        if !seen {
            out.fail(format!("hostile:{}:descriptor-never-called:{}", mode, kind), case.clone(), "no program used the registered descriptor");
            return;
        }
    }
    // every program renders as the reference says (the hostile descriptor answers like the marker)
    let mut tmp = WorkerOut::default();
    check_config_installed(cfg, progs, "hostile", &mut tmp);
    if expression_engine::verif_hooks::sync::self_deadlock_seen() {
        out.fail(format!("hostile:{}:self-deadlock:{}", mode, kind), case.clone(), "a descriptor that re-entered the engine tried to lock a mutex its own thread holds");
    }
    let fails = std::mem::take(&mut tmp.fails);
    out.merge(tmp);
    for (k, (f, _)) in fails {
        out.fail(format!("hostile:{}:{}", mode, k), case.clone(), format!("{}: {}", f.case, f.detail));
    }
    // and the normal marker can be registered over it
    let r = guarded(|| {
        install(cfg, false);
        Ok(())
    });
    if let Res::Panic(msg) = r {
        out.fail(format!("hostile:{}:registration-afterwards-panics:{}", mode, kind), case, msg);
        return;
    }
    let mut tmp = WorkerOut::default();
    check_config_installed(cfg, progs, "hostile", &mut tmp);
    let fails = std::mem::take(&mut tmp.fails);
    out.merge(tmp);
    for (k, (f, _)) in fails {
        out.fail(format!("hostile:{}:afterwards:{}", mode, k), format!("hostile|{} descriptor for {:?}, then the normal one", mode, REGS[i]), format!("{}: {}", f.case, f.detail));
    }
    out.count("states", 1);
    out.nontrivial.insert(hash64(&format!("hostile{}{}", i, mode)));
}

fn configs(_tier: Tier) -> Vec<u32> {
    (0..(1u32 << REGS.len())).collect()
}

fn root_kind(a: &Ast) -> String {
    match a {
        Ast::Unary(op, _) => format!("unary({})", op),
        Ast::Binary(op, _, _) => format!("binary({})", op),
        Ast::Postfix(_, op) => format!("postfix({})", op),
        Ast::Ternary(..) => "ternary".into(),
        Ast::Func(n, v) => format!("function({},{} args)", n, v.len()),
        Ast::Ref(n) => format!("reference({})", n),
        Ast::List(v) => format!("list({} items)", v.len()),
        Ast::Map(v) => format!("map({} entries)", v.len()),
        Ast::Stmt(v) => format!("chain({})", v.len()),
        _ => "literal".into(),
    }
}

fn check_config(cfg: u32, progs: &[String], stage: &str, clear: bool, out: &mut WorkerOut) {
    install(cfg, clear);
    check_config_installed(cfg, progs, stage, out);
}

/// compare every program's describe() with the reference rendering for configuration `cfg`
/// (whatever is registered in the engine right now)
fn check_config_installed(cfg: u32, progs: &[String], stage: &str, out: &mut WorkerOut) {
    for p in progs {
        out.evals += 1;
        let r = guarded(|| {
            let t = parse_expression(p).map_err(|e| format!("parse: {:?}", e))?;
            let ast = conv(&t);
            let d = guarded(|| Ok(t.describe()));
            // nodes taken out of a parsed tree and re-assembled by hand are nodes too: every
            // statement of a chain alone, and wrapped in a one-element chain
            if let expression_engine::ExprAST::Stmt(items) = &t {
                if let (Ast::Stmt(mitems), Res::Ok(_)) = (&ast, &d) {
                    for (e, m) in items.iter().zip(mitems) {
                        for (built, want) in [
                            (e.clone(), describe(m, cfg)),
                            (expression_engine::ExprAST::Stmt(vec![e.clone()]), describe(&Ast::Stmt(vec![m.clone()]), cfg)),
                        ] {
                            let got = guarded(|| Ok(built.describe()));
                            if got != Res::Ok(want.clone()) {
                                return Err(format!("hand-built: {:?} describes as {:?}, expected {:?}", conv(&built), got, want));
                            }
                        }
                    }
                }
            }
            Ok((ast, d))
        });
        let case = format!("{}|config={:#06x} program={}", stage, cfg, show(p));
        match r {
            Res::Ok((ast, Res::Ok(got))) => {
                let want = describe(&ast, cfg);
                if got == want {
                    out.outcomes.insert(if want.contains('<') { "marker-used".into() } else { "default-used".into() });
                    out.count("validated", 1);
                } else {
                    // smallest programs come first, so the first mismatch names the node kind
                    out.fail(format!("describe:wrong-rendering:{}", root_kind(&ast)), case, format!("expected {:?} got {:?}", want, got));
                    return;
                }
            }
            Res::Ok((_, Res::Panic(m))) => {
                out.fail(format!("panic:describe:{}", normalise_panic(&m)), case, m);
                return;
            }
            Res::Ok((_, Res::Err(_))) => {}
            Res::Err(e) if e.starts_with("hand-built:") => {
                out.fail("describe:wrong-rendering:hand-built-chain", case, e);
                return;
            }
            Res::Err(e) => {
                out.fail("generator:program-rejected", case, e);
                return;
            }
            Res::Panic(m) => {
                out.fail("panic:parse", case, m);
                return;
            }
        }
    }
}

impl Prop for C18 {
    fn id(&self) -> &'static str {
        "C18"
    }
    fn plan(&self, tier: Tier) -> Plan {
        let n = configs(tier).len() as u64;
        Plan {
            stages: vec![
                Stage { name: "subsets".into(), len: n, chunk: (n / 32).max(16), timeout: Duration::from_secs(1200), what: "registration subsets reached through verif_clear() + the public setters".into() },
                Stage { name: "schedules".into(), len: super::c13::extra_workloads().len() as u64, chunk: 1, timeout: Duration::from_secs(900), what: "describe() racing set_*_descriptor under the controlled scheduler (all schedules with <= 2 preemptions; results must equal a sequential order; the descriptor registered last must be used afterwards)".into() },
                Stage { name: "reregister".into(), len: REGS.len() as u64, chunk: 1, timeout: Duration::from_secs(120), what: "each (kind, name) registered twice with different descriptors, no clear in between: the later one must be used (fresh process each)".into() },
                Stage { name: "styles".into(), len: style_cases().len() as u64, chunk: 8, timeout: Duration::from_secs(600), what: "marker descriptors that return the empty string, or text made of the separators the default renderings use (',' ';' ':'): every configuration of <= 2 registrations and the full one".into() },
                Stage { name: "many".into(), len: 1, chunk: 1, timeout: Duration::from_secs(300), what: "a registry growing to 70 entries (35 names x reference / function descriptors) one registration at a time, then every entry replaced; after every step each name is described as a reference and as a call (fresh process)".into() },
                Stage { name: "hostile".into(), len: (REGS.len() * HOSTILE.len()) as u64, chunk: 1, timeout: Duration::from_secs(60), what: "for each (kind, name): a descriptor that itself calls parse + describe(), that itself registers a descriptor, or that panics on its first call (fresh process each); renderings, and renderings after the normal descriptor is registered over it, must equal the reference".into() },
                Stage { name: "fresh".into(), len: (REGS.len() + 2) as u64, chunk: 1, timeout: Duration::from_secs(120), what: "the empty, every singleton and the full configuration, each in a fresh process without the clear hook".into() },
                Stage { name: "cross-names".into(), len: 1, chunk: 1, timeout: Duration::from_secs(600), what: "every single registration and every ordered pair of registrations over {unary, binary, postfix, function, reference} x 22 names that collide if a registry key is built carelessly (the conditional's spelling '?:', separators, the empty name, kind names, two identifiers with equal 64-bit SipHash, dotted names with their prefixes and `*` forms) + {ternary, list, map, chain}; under each, one hand-assembled node per (kind, name) renders with its own descriptor if registered, else with the default (fresh process)".into() },
            ],
            rule: format!(
                "configurations: subsets of {} (kind, name) registrations with names shared across kinds (unary/binary '-', unary/postfix '++', function/reference 'x' and 'f') — {}; programs: every AST of <= {} operator nodes over 16 node kinds (empty and non-empty calls, lists, maps included) + chains ({} programs). \
                 Oracle: reference rendering = the registered marker for (kind, name) if in the subset, else the documented default; compared as strings. distinct = distinct configuration",
                REGS.len(),
                "all 16384 subsets",
                tier.pick(2, 3),
                programs(tier).len()
            ),
            assumptions: vec!["the prefix operator '++' is registered in the engine so that '++ x' parses to a unary node".into()],
            exhaustive: true,
            bound: format!("{} configurations x {} programs", n, programs(tier).len()),
            states_note: "states = registry configurations; transitions = (configuration, program) renderings compared".into(),
        }
    }
    fn run(&self, tier: Tier, stage: usize, a: u64, b: u64, out: &mut WorkerOut) {
        expression_engine::register_prefix_op("++", Arc::new(|v| Ok(v)));
        let progs = programs(tier);
        if stage == 1 {
            let ws = super::c13::extra_workloads();
            for i in a..b {
                out.at(i);
                super::c13::check_workload(&ws[i as usize], tier.pick(2, 3), Duration::from_secs(tier.pick(60, 600)), out);
            }
            return;
        }
        if stage == 3 {
            let cases = style_cases();
            for i in a..b {
                out.at(i);
                let (style, cfg) = cases[i as usize];
                STYLE.store(style, std::sync::atomic::Ordering::SeqCst);
                check_config(cfg, &progs, ["", "styles[empty]", "styles[separators]", "styles[trailing-comma]", "styles[leading-comma]"][style as usize], true, out);
                STYLE.store(0, std::sync::atomic::Ordering::SeqCst);
                out.nontrivial.insert(cfg as u64 + ((style as u64) << 44));
                out.count("states", 1);
                out.count("transitions", progs.len() as u64);
            }
            return;
        }
        if stage == 4 {
            out.at(0);
            run_many(out);
            return;
        }
        if stage == 7 {
            out.at(0);
            run_cross_names(out);
            return;
        }
        if stage == 5 {
            for i in a..b {
                out.at(i);
                run_hostile(i as usize / HOSTILE.len(), HOSTILE[i as usize % HOSTILE.len()], &progs, out);
            }
            return;
        }
        let stage = if stage == 6 { 2 } else if stage >= 2 { stage - 1 } else { stage };
        if stage == 1 {
            for i in a..b {
                out.at(i);
                // first a decoy descriptor for this (kind, name), then the marker set
                install_decoy(i as usize);
                let cfg = 1u32 << i;
                check_config(cfg, &progs, "reregister", false, out);
                // and the other way round: everything registered, then one decoy replaced again
                check_config((1u32 << REGS.len()) - 1, &progs, "reregister", false, out);
                out.nontrivial.insert(cfg as u64 + (1 << 41));
                out.count("states", 2);
                out.count("transitions", 2 * progs.len() as u64);
            }
            return;
        }
        if stage == 0 {
            let cfgs = configs(tier);
            for i in a..b {
            out.at(i);
                let cfg = cfgs[i as usize];
                check_config(cfg, &progs, "subsets", true, out);
                out.nontrivial.insert(cfg as u64);
                out.count("states", 1);
                out.count("transitions", progs.len() as u64);
                if i % 1571 == 2 {
                    out.sample(format!("config {:#06x} = {:?}", cfg, REGS.iter().enumerate().filter(|(j, _)| cfg & (1 << j) != 0).map(|(_, r)| format!("{}:{}", r.0, r.1)).collect::<Vec<_>>()));
                }
            }
        } else {
            for i in a..b {
            out.at(i);
                let n = REGS.len() as u64;
                let cfg: u32 = if i == 0 { 0 } else if i == n + 1 { (1u32 << n) - 1 } else { 1u32 << (i - 1) };
                check_config(cfg, &progs, "fresh", false, out);
                out.nontrivial.insert(cfg as u64 + (1 << 40));
                out.count("states", 1);
                out.count("transitions", progs.len() as u64);
            }
        }
    }
    fn case_text(&self, tier: Tier, stage: usize, i: u64) -> String {
        if stage == 0 {
            format!("config={:#06x}", configs(tier)[i as usize])
        } else if stage == 1 {
            super::c13::extra_workloads()[i as usize].name.to_string()
        } else if stage == 2 {
            format!("decoy then marker for {:?}", REGS[i as usize])
        } else if stage == 3 {
            let (style, cfg) = style_cases()[i as usize];
            format!("style={} config={:#06x}", style, cfg)
        } else if stage == 4 {
            "70 registrations one after the other".to_string()
        } else if stage == 5 {
            format!("{} descriptor for {:?}", HOSTILE[i as usize % HOSTILE.len()], REGS[i as usize / HOSTILE.len()])
        } else if stage == 7 {
            "single and paired registrations under colliding names".to_string()
        } else {
            format!("fresh {}", i)
        }
    }
}
