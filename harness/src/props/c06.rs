//! C06 — assignments update the context exactly as written. Explicit-state search: states
//! are contexts, transitions are statements; breadth-first to a depth bound with
//! de-duplication on the canonical context. Every transition is executed on the engine
//! (statement by statement on one Context, and as one multi-statement program) and on the
//! reference evaluator; results and complete context contents must agree.
use super::vals::{context_vars, model_vars, show_value};
use crate::core::*;
use crate::engine::{guarded, Res};
use crate::gen::show;
use crate::model::eval::{self, EErr, HFn, MBind, MCtx, World};
use crate::model::parse::{self, Ast};
use expression_engine::{parse_expression, Context, Value};
use rust_decimal::Decimal;
use std::collections::{BTreeMap, VecDeque};
use std::str::FromStr;
use std::sync::Arc;
use std::time::Duration;

pub struct C06;

const COMPOUND: &[&str] = &["+=", "-=", "*=", "/=", "%=", "<<=", ">>=", "&=", "^=", "|="];

fn statements() -> Vec<String> {
    let mut v: Vec<String> = Vec::new();
    for val in ["1", "2.50", "'a'", "true", "[1, 'b']", "nothere", "- 3"] {
        v.push(format!("x = {}", val));
    }
    for op in COMPOUND {
        v.push(format!("x {} 2", op));
    }
    v.extend(
        [
            "x += 'a'", "x /= 0", "x <<= 64", "x += 0.5", "y += x", "x -= y", "x", "y", "y = x", "x = y + 1", "x = (y = 3)", "x = y = 3",
            "1 = 2", "nofn() = 2", "(x) = 4", "x = x", "x ++", "x = x ++", "x += snd(x = 10, 2)", "y = snd(x = 6, x)", "x = [x = 5, x]",
            "min = 3", "min += 1", "y = min(8, 9)", "x = y ? 1 : 2", "x = true ? (y = 7) : 2", "x + 1 = 5", "'s' = 1", "x = y = nothere = 4",
            // assignments inside the arguments of a call that cannot be resolved / whose callee is re-bound
            "nofn(x = 2, y = 3)", "y = snd(snd = 5, 1)", "y = snd(1, 2) + snd(x = 8, 1)",
            // a never-bound name reads as None even if a function of that name is registered
            "x = mul", "sum += 1", "y = max",
            // numerically equal, differently written: the binding holds what was written last
            // names that differ from x / y only by a leading character Unicode calls whitespace
            "\u{a0}x = 9", "x = \u{a0}x",
            // a name that differs from a bound one in letter case only was never bound
            "y = X", "X",
            "x = 7", "x = 2.5", "x += 0.00", "x *= 1.0", "x = 0", "x = - 0", "x = [1.0, 'b']",
        ]
        .iter()
        .map(|s| s.to_string()),
    );
    v
}

fn initial_states() -> Vec<(&'static str, Vec<(&'static str, Option<Value>)>)> {
    let n = |s: &str| Value::Number(Decimal::from_str(s).unwrap());
    vec![
        ("empty", vec![]),
        ("x-number", vec![("x", Some(n("5")))]),
        ("x-string", vec![("x", Some(Value::String("s".into())))]),
        // None = bound to a context *function* returning 7
        ("x-function", vec![("x", None)]),
        ("min-variable", vec![("min", Some(n("4"))), ("y", Some(n("1.0")))]),
        ("x-list-y-bool", vec![("x", Some(Value::List(vec![n("1")]))), ("y", Some(Value::Bool(true)))]),
        // a populated context: the names the statements use sit among 40 other bindings, all
        // of which must stay exactly as they are
        ("x-among-40-others", {
            let mut v: Vec<(&'static str, Option<Value>)> = vec![("x", Some(n("5")))];
            for i in 0..40 {
                let name: &'static str = Box::leak(format!("w{:02}", i).into_boxed_str());
                v.push((name, if i % 13 == 5 { None } else { Some(n(&format!("{}.{}", i, i % 7))) }));
            }
            v
        }),
    ]
}

fn snd_engine() -> Arc<dyn Fn(Vec<Value>) -> expression_engine::Result<Value> + Send + Sync> {
    Arc::new(|args| Ok(args.get(1).cloned().unwrap_or(Value::None)))
}
fn seven_engine() -> Arc<dyn Fn(Vec<Value>) -> expression_engine::Result<Value> + Send + Sync> {
    Arc::new(|_| Ok(Value::Number(Decimal::from(7))))
}

fn engine_initial(init: &[(&'static str, Option<Value>)]) -> Context {
    let mut c = Context::new();
    c.set_func("snd", snd_engine());
    for (k, v) in init {
        match v {
            Some(v) => { let _ = c.set_variable(k, v.clone()); }
            None => { let _ = c.set_func(k, seven_engine()); }
        }
    }
    c
}

fn model_initial(init: &[(&'static str, Option<Value>)]) -> MCtx {
    let mut c = MCtx::new();
    let snd: HFn = Arc::new(|args| Ok(args.get(1).cloned().unwrap_or(Value::None)));
    let seven: HFn = Arc::new(|_| Ok(Value::Number(Decimal::from(7))));
    c.insert("snd".into(), MBind::Func(snd));
    for (k, v) in init {
        match v {
            Some(v) => c.insert(k.to_string(), MBind::Var(v.clone())),
            None => c.insert(k.to_string(), MBind::Func(seven.clone())),
        };
    }
    c
}

/// canonical form of a context: sorted bindings, numbers with their digits
fn canon(vars: &[(String, Option<Value>)]) -> String {
    vars.iter()
        .map(|(k, v)| match v {
            Some(v) => format!("{}={}", k, show_value(v)),
            None => format!("{}=<fn>", k),
        })
        .collect::<Vec<_>>()
        .join(";")
}

fn exec_step(ctx: &mut Context, stmt: &str) -> Res<Value> {
    guarded(|| {
        let ast = parse_expression(stmt).map_err(|e| format!("parse: {:?}", e))?;
        ast.exec(ctx).map_err(|e| format!("{:?}", e))
    })
}

fn same_result(m: &Result<Value, EErr>, e: &Res<Value>) -> bool {
    match (m, e) {
        (Ok(a), Res::Ok(b)) => a == b,
        (Err(_), Res::Err(_)) => true,
        _ => false,
    }
}

fn stmt_key(stmt: &str) -> String {
    // shape of the statement: operator + kind of target / right side
    let ops = ["<<=", ">>=", "+=", "-=", "*=", "/=", "%=", "&=", "^=", "|=", "="];
    for o in ops {
        if let Some(i) = stmt.find(&format!(" {} ", o)) {
            // (only the language's own blank is trimmed: a name may be a character Unicode calls whitespace)
            let lhs = stmt[..i].trim_matches(' ');
            let rhs = stmt[i + o.len() + 2..].trim_matches(' ');
            let lk = if lhs.chars().all(|c| c.is_ascii_alphanumeric()) && lhs.chars().next().map(|c| !c.is_ascii_digit()).unwrap_or(false) {
                "name"
            } else if lhs.chars().any(|c| c.is_whitespace()) {
                "odd-name"
            } else {
                "non-name"
            };
            let rk = if rhs.contains('=') { "nested-assignment" } else if rhs.contains('(') { "call" } else { "simple" };
            return format!("{}:{}:{}", o, lk, rk);
        }
    }
    "read".into()
}

fn bfs(init_idx: usize, depth: usize, out: &mut WorkerOut) {
    let world = World::builtin();
    let inits = initial_states();
    let (iname, init) = &inits[init_idx];
    let stmts = statements();
    let parsed: Vec<Ast> = stmts.iter().map(|s| parse::parse(s, &world.ops).expect("statement alphabet parses")).collect();
    // state -> shortest path (statement indices)
    let mut seen: BTreeMap<String, Vec<usize>> = BTreeMap::new();
    let mut frontier: VecDeque<Vec<usize>> = VecDeque::new();
    let start = model_initial(init);
    seen.insert(canon(&model_vars(&start)), vec![]);
    frontier.push_back(vec![]);
    let rebuild_model = |path: &[usize]| -> MCtx {
        let mut c = model_initial(init);
        for i in path {
            let _ = eval::eval(&parsed[*i], &mut c, &world);
        }
        c
    };
    let rebuild_engine = |path: &[usize]| -> Context {
        let mut c = engine_initial(init);
        for i in path {
            let _ = exec_step(&mut c, &stmts[*i]);
        }
        c
    };
    while let Some(path) = frontier.pop_front() {
        for (si, stmt) in stmts.iter().enumerate() {
            let case = format!(
                "search|init={} path=[{}] then {}",
                iname,
                path.iter().map(|i| stmts[*i].as_str()).collect::<Vec<_>>().join(" ; "),
                show(stmt)
            );
            let key = stmt_key(stmt);
            // reference
            let mut mctx = rebuild_model(&path);
            let before = canon(&model_vars(&mctx));
            let mres = eval::eval(&parsed[si], &mut mctx, &world);
            let mvars = model_vars(&mctx);
            // engine, statement by statement on one Context
            let mut ectx = rebuild_engine(&path);
            let ebefore = canon(&context_vars(&ectx));
            if ebefore != before {
                // already reported on the transition that produced the divergence
                continue;
            }
            let eres = exec_step(&mut ectx, stmt);
            let evars = context_vars(&ectx);
            out.evals += 1;
            out.count("transitions", 1);
            out.count("validated", 1);
            out.outcomes.insert(match &mres {
                Ok(Value::None) => "ok-none".to_string(),
                Ok(_) => "ok-value".to_string(),
                Err(_) => "err".to_string(),
            });
            if let Res::Panic(m) = &eres {
                out.fail(format!("panic:{}", key), case.clone(), m.clone());
                continue;
            }
            if !same_result(&mres, &eres) {
                out.fail(format!("result:{}", key), case.clone(), format!("expected {:?} got {:?}", mres.as_ref().map(show_value), eres));
            }
            if canon(&evars) != canon(&mvars) {
                out.fail(
                    format!("context:{}:{}", key, if mres.is_err() { "after-failing-statement" } else { "after-statement" }),
                    case.clone(),
                    format!("context before: {{{}}}; expected after: {{{}}}; engine: {{{}}}", before, canon(&mvars), canon(&evars)),
                );
            }
            // the same history as ONE multi-statement program on a fresh initial context
            let program: String = path.iter().map(|i| stmts[*i].as_str()).chain(std::iter::once(stmt.as_str())).collect::<Vec<_>>().join(" ; ");
            let whole = parse::parse(&program, &world.ops).expect("program parses");
            let mut m2 = model_initial(init);
            let m2res = eval::eval(&whole, &mut m2, &world);
            let mut e2 = engine_initial(init);
            let e2res = exec_step(&mut e2, &program);
            out.evals += 1;
            if !same_result(&m2res, &e2res) || canon(&context_vars(&e2)) != canon(&model_vars(&m2)) {
                out.fail(
                    format!("program-at-once:{}", key),
                    case.clone(),
                    format!("program {:?}: expected {:?} with {{{}}}; engine {:?} with {{{}}}", program, m2res.as_ref().map(show_value), canon(&model_vars(&m2)), e2res, canon(&context_vars(&e2))),
                );
            }
            // compound assignment equals its expansion (engine against engine)
            for op in COMPOUND {
                let pat = format!(" {} ", op);
                if let Some(pos) = stmt.find(&pat) {
                    let (lhs, rhs) = (stmt[..pos].trim(), stmt[pos + pat.len()..].trim());
                    if lhs.chars().all(|c| c.is_ascii_alphanumeric()) {
                        let expansion = format!("{} = {} {} ({})", lhs, lhs, &op[..op.len() - 1], rhs);
                        let mut e3 = rebuild_engine(&path);
                        let e3res = exec_step(&mut e3, &expansion);
                        out.evals += 1;
                        let same = match (&eres, &e3res) {
                            (Res::Ok(a), Res::Ok(b)) => a == b,
                            (Res::Err(_), Res::Err(_)) => true,
                            _ => false,
                        };
                        // (the expansion reads the target twice when the right side assigns it;
                        // those statements are excluded from this differential)
                        if !rhs.contains('=') && (!same || canon(&context_vars(&e3)) != canon(&evars)) {
                            out.fail(format!("compound-vs-expansion:{}", op), case.clone(), format!("{:?} gives {:?} {{{}}} but {:?} gives {:?} {{{}}}", stmt, eres, canon(&evars), expansion, e3res, canon(&context_vars(&e3))));
                        }
                    }
                    break;
                }
            }
            // successor state
            let c = canon(&mvars);
            if !seen.contains_key(&c) {
                let mut np = path.clone();
                np.push(si);
                if np.len() < depth {
                    frontier.push_back(np.clone());
                }
                seen.insert(c.clone(), np);
                if out.samples.len() < 4 && seen.len() % 37 == 5 {
                    out.sample(format!("state {{{}}} reached from '{}' by [{}]", c, iname, seen[&c].iter().map(|i| stmts[*i].as_str()).collect::<Vec<_>>().join(" ; ")));
                }
            }
        }
    }
    for k in seen.keys() {
        out.nontrivial.insert(hash64(k));
    }
    out.count("states", seen.len() as u64);
    // reads of never-bound names and the empty program
    for (prog, want) in [("", Value::None), ("  ", Value::None), ("neverbound", Value::None), ("neverbound ; 1", Value::Number(Decimal::ONE))] {
        let mut e = engine_initial(init);
        let r = exec_step(&mut e, prog);
        out.evals += 1;
        if r != Res::Ok(want.clone()) {
            out.fail("result:empty-or-unbound", format!("search|init={} program {}", iname, show(prog)), format!("expected {} got {:?}", show_value(&want), r));
        }
    }
}

impl Prop for C06 {
    fn id(&self) -> &'static str {
        "C06"
    }
    fn plan(&self, tier: Tier) -> Plan {
        Plan {
            stages: vec![Stage {
                name: "search".into(),
                len: initial_states().len() as u64,
                chunk: 1,
                timeout: Duration::from_secs(1800),
                what: "one breadth-first search per initial context".into(),
            }],
            rule: format!(
                "explicit-state search: states = contexts (canonical sorted bindings), transitions = {} statements (plain assignments with values of changing type, all 10 compound operators, failing statements, reads, nested and chained assignments, non-name targets, assignments inside call arguments and list literals, a global function name used as a variable), from {} initial contexts, breadth-first to depth {} with de-duplication. \
                 Each transition: engine statement-by-statement on one Context vs reference evaluator (result and complete context), the whole history as one program vs reference, compound assignment vs its expansion (engine vs engine). distinct = distinct reachable contexts",
                statements().len(),
                initial_states().len(),
                tier.pick(4, 5)
            ),
            assumptions: vec!["merged states have equal futures: the canonical form contains every binding the evaluator can observe".into()],
            exhaustive: true,
            bound: format!("depth {} over {} statements and 2-3 names", tier.pick(4, 5), statements().len()),
            states_note: "states = distinct contexts reached; transitions = (state, statement) pairs executed on engine and model".into(),
        }
    }
    fn run(&self, tier: Tier, _stage: usize, a: u64, b: u64, out: &mut WorkerOut) {
        for i in a..b {
            out.at(i);
            bfs(i as usize, tier.pick(4, 5), out);
        }
    }
    fn case_text(&self, _tier: Tier, _stage: usize, i: u64) -> String {
        format!("init={}", initial_states()[i as usize].0)
    }
    fn min_outcomes(&self) -> usize {
        3
    }
}
