//! Observable, fault-injectable handlers shared by C07 and C15: every handler kind logs
//! its invocation (with argument values) into one global log and can be told to fail
//! (return Err or panic) at its k-th invocation. The same handler bodies serve the engine
//! and the reference evaluator, run one after the other.
use super::vals::{context_vars, model_vars, show_value};
use crate::core::*;
use crate::engine::{guarded, Res};
use crate::gen::{trees_by_size, Kind};
use crate::model::eval::{self, EErr, HFn, MBind, MCtx, World};
use crate::model::lex::{InfixInfo, OpSet};
use crate::model::parse::{self, Ast, Parens};
use expression_engine::{parse_expression, Context, InfixOpAssociativity, InfixOpType, Value};
use rust_decimal::Decimal;
use std::sync::{Arc, Mutex};

#[derive(Clone, Copy, PartialEq, Eq, Debug)]
pub enum Fault {
    None,
    /// the handler returns an error borrowed from a value accessor (ShouldBeBool)
    Err,
    /// the handler returns the error of a nested execute() of an unregistered function
    /// (InnerFunctionNotRegistered) — the kind of error the engine itself produces
    ErrNested,
    Panic,
}

struct Ctl {
    log: Vec<String>,
    count: usize,
    fault_at: usize,
    fault: Fault,
}

static CTL: Mutex<Ctl> = Mutex::new(Ctl { log: Vec::new(), count: 0, fault_at: usize::MAX, fault: Fault::None });

pub fn arm(fault: Fault, at: usize) {
    let mut c = CTL.lock().unwrap_or_else(|e| e.into_inner());
    c.log.clear();
    c.count = 0;
    c.fault = fault;
    c.fault_at = if fault == Fault::None { usize::MAX } else { at };
}

pub fn take_log() -> Vec<String> {
    let mut c = CTL.lock().unwrap_or_else(|e| e.into_inner());
    std::mem::take(&mut c.log)
}

/// called first thing by every handler; Ok(()) to proceed, Err(()) to fail with an error
fn hit(name: &str, args: &[Value]) -> Result<(), bool> {
    let fault = {
        let mut c = CTL.lock().unwrap_or_else(|e| e.into_inner());
        let me = c.count;
        c.count += 1;
        c.log.push(format!("{}({})", name, args.iter().map(show_value).collect::<Vec<_>>().join(",")));
        if me == c.fault_at {
            c.fault
        } else {
            Fault::None
        }
    }; // CTL released before any unwinding
    match fault {
        Fault::None => Ok(()),
        Fault::Err => Err(false),
        Fault::ErrNested => Err(true),
        Fault::Panic => panic!("injected fault in handler {}", name),
    }
}

/// the value a handler returns when it does not fail
fn answer(name: &str, args: &[Value]) -> Value {
    let idx: i64 = name.trim_start_matches(|c: char| c.is_ascii_alphabetic()).parse().unwrap_or(0);
    match name.chars().next().unwrap() {
        'p' => Value::Number(Decimal::from(idx)),
        'q' => Value::Number(Decimal::from(idx + 10)),
        't' => Value::Bool(true),
        'f' => Value::Bool(false),
        // cf, gf and the operators hand their first argument through
        _ => args.first().cloned().unwrap_or(Value::None),
    }
}

fn engine_err(nested: bool) -> expression_engine::Result<Value> {
    // the crate's Error type is private: borrow one from an accessor, or from the engine
    if nested {
        expression_engine::execute("function_nobody_registered()", Context::new())
    } else {
        Value::None.bool().map(Value::from)
    }
}

fn engine_handler(name: String) -> Arc<dyn Fn(Vec<Value>) -> expression_engine::Result<Value> + Send + Sync> {
    Arc::new(move |args| match hit(&name, &args) {
        Ok(()) => Ok(answer(&name, &args)),
        Err(nested) => engine_err(nested),
    })
}

fn model_handler(name: String) -> HFn {
    Arc::new(move |args| {
        // a panic fault is an error as far as the reference evaluator is concerned
        match std::panic::catch_unwind(std::panic::AssertUnwindSafe(|| hit(&name, &args))) {
            Ok(Ok(())) => Ok(answer(&name, &args)),
            _ => Err(EErr::Handler),
        }
    })
}

pub const LEAF_NAMES: usize = 8;

/// register the logging operators and the global function (idempotent) and return the
/// matching reference world
pub fn install() -> World {
    let g = engine_handler("gf".into());
    expression_engine::register_function("gf", g);
    // a global function shadowed by the context function of the same name: never called
    expression_engine::register_function("cf", engine_handler("cf-global-shadowed".into()));
    let h = engine_handler("lg".into());
    expression_engine::register_prefix_op("lg", Arc::new(move |v| h(vec![v])));
    let h = engine_handler("lpo".into());
    expression_engine::register_postfix_op("lpo", Arc::new(move |v| h(vec![v])));
    let h = engine_handler("lop".into());
    expression_engine::register_infix_op("lop", 115, InfixOpType::CALC, InfixOpAssociativity::LEFT, Arc::new(move |a, b| h(vec![a, b])));
    let h = engine_handler("lset".into());
    expression_engine::register_infix_op("lset", 20, InfixOpType::SETTER, InfixOpAssociativity::RIGHT, Arc::new(move |a, b| h(vec![a, b])));
    let mut w = World::builtin();
    let mut ops = OpSet::builtin();
    ops.prefix.insert("lg".into());
    ops.postfix.insert("lpo".into());
    ops.infix.insert("lop".into(), InfixInfo { prec: 115, left: true, setter: false });
    ops.infix.insert("lset".into(), InfixInfo { prec: 20, left: false, setter: true });
    w.ops = ops;
    w.functions.insert("gf".into(), model_handler("gf".into()));
    w.functions.insert("cf".into(), model_handler("cf-global-shadowed".into()));
    w.prefix.insert("lg".into(), model_handler("lg".into()));
    w.postfix.insert("lpo".into(), model_handler("lpo".into()));
    w.infix.insert("lop".into(), model_handler("lop".into()));
    w.infix.insert("lset".into(), model_handler("lset".into()));
    w
}

fn ctx_names() -> Vec<String> {
    let mut v = Vec::new();
    for i in 1..=LEAF_NAMES {
        for p in ["p", "q", "t", "f"] {
            v.push(format!("{}{}", p, i));
        }
    }
    v.push("cf".into());
    v
}

pub fn engine_context() -> Context {
    let mut c = Context::new();
    for n in ctx_names() {
        c.set_func(&n, engine_handler(n.clone()));
    }
    c.set_variable("v", Value::Number(Decimal::from(100)));
    for (k, v) in extra_vars() {
        c.set_variable(k, v);
    }
    c
}

fn extra_vars() -> Vec<(&'static str, Value)> {
    vec![
        ("sv", Value::String("text".into())),
        ("lv", Value::List(vec![Value::Number(Decimal::from(1)), Value::String("b".into())])),
        ("mv", Value::Map(vec![(Value::Number(Decimal::from(1)), Value::Bool(true))])),
        ("nv", Value::Number(Decimal::new(250, 2))),
        ("bv", Value::Bool(true)),
    ]
}

pub fn model_context() -> MCtx {
    let mut c = MCtx::new();
    for n in ctx_names() {
        c.insert(n.clone(), MBind::Func(model_handler(n.clone())));
    }
    c.insert("v".into(), MBind::Var(Value::Number(Decimal::from(100))));
    for (k, v) in extra_vars() {
        c.insert(k.into(), MBind::Var(v));
    }
    c
}

pub fn kinds() -> Vec<Kind> {
    vec![
        Kind::Infix("+".into()),
        Kind::Infix("lop".into()),
        Kind::Infix("&&".into()),
        Kind::Infix("=".into()),
        Kind::Infix("+=".into()),
        Kind::Infix("lset".into()),
        Kind::Prefix("-".into()),
        Kind::Prefix("lg".into()),
        Kind::Prefix("AND".into()),
        Kind::Prefix("OR".into()),
        Kind::Postfix("++".into()),
        Kind::Postfix("lpo".into()),
        Kind::Ternary,
        Kind::Call(1),
        Kind::Call(2),
        // three arguments = a call of a function that exists nowhere
        Kind::Call(3),
        Kind::List(2),
        Kind::List(3),
        Kind::Map(1),
        Kind::Map(2),
    ]
}

/// leaf styles: how placeholder leaves are replaced
pub const STYLES: &[&str] = &["calls", "bare", "mixed-true", "mixed-false", "repeat", "literal", "repeat-bare", "variables"];

fn relabel_effects(t: &Ast, style: &str, next: &mut usize, cond: bool) -> Ast {
    let mut go = |x: &Ast, next: &mut usize, cond: bool| relabel_effects(x, style, next, cond);
    match t {
        Ast::Ref(n) if n == "_" => {
            let i = *next % LEAF_NAMES + 1;
            *next += 1;
            let call = |p: &str| Ast::Func(format!("{}{}", p, i), vec![]);
            let bare = |p: &str| Ast::Ref(format!("{}{}", p, i));
            match (style, cond) {
                ("mixed-true", true) => {
                    if i % 2 == 0 {
                        call("t")
                    } else {
                        bare("t")
                    }
                }
                ("mixed-false", true) => {
                    if i % 2 == 0 {
                        bare("f")
                    } else {
                        call("f")
                    }
                }
                // every non-condition leaf is the same call, so sibling subtrees of equal
                // shape are structurally equal (identical conditional arms, equal map keys)
                // no names and no calls at all: only the operator handlers are observable
                // (an expression a "constant folder" or a result cache would call constant)
                ("literal", true) => Ast::Bool(i % 2 == 1),
                ("literal", false) => Ast::Num(Decimal::from(i as i64)),
                // the same BARE name everywhere (both operands of an operator are the same reference)
                ("repeat-bare", true) => Ast::Ref("t1".into()),
                ("repeat-bare", false) => Ast::Ref("q1".into()),
                // plain variables of every value kind (assignment targets that hold a list, a
                // string, a map: what a failing handler must leave in place)
                ("variables", true) => Ast::Ref("bv".into()),
                ("variables", false) => Ast::Ref(["sv", "lv", "v", "mv", "nv"][i % 5].into()),
                ("repeat", true) => call("t"),
                ("repeat", false) => Ast::Func("p1".into(), vec![]),
                ("calls", _) => call("p"),
                ("bare", _) => bare("q"),
                _ => {
                    if i % 2 == 0 {
                        call("p")
                    } else {
                        bare("q")
                    }
                }
            }
        }
        Ast::Unary(op, x) if (op == "AND" || op == "OR") && matches!(**x, Ast::List(_)) => {
            // the elements of an aggregated list literal are boolean positions
            let inner = match &**x {
                Ast::List(v) => Ast::List(v.iter().map(|e| go(e, next, true)).collect()),
                _ => unreachable!(),
            };
            Ast::Unary(op.clone(), Box::new(inner))
        }
        Ast::Unary(op, x) => Ast::Unary(op.clone(), Box::new(go(x, next, false))),
        Ast::Postfix(x, op) => Ast::Postfix(Box::new(go(x, next, false)), op.clone()),
        Ast::Binary(op, l, r) => {
            let logical = op == "&&";
            let l2 = go(l, next, logical);
            let r2 = go(r, next, logical);
            Ast::Binary(op.clone(), Box::new(l2), Box::new(r2))
        }
        Ast::Ternary(a, b, c) => {
            let a2 = go(a, next, true);
            let b2 = go(b, next, false);
            let c2 = go(c, next, false);
            Ast::Ternary(Box::new(a2), Box::new(b2), Box::new(c2))
        }
        Ast::Func(_, v) => {
            let name = match v.len() {
                1 => "cf",
                2 => "gf",
                // three arguments: a function that exists nowhere, or (half of the styles) a
                // name that is bound in the context, but to a plain value: the arguments are
                // evaluated all the same before the call fails
                _ if matches!(style, "bare" | "repeat" | "variables" | "mixed-false") => "sv",
                _ => "nofn",
            };
            Ast::Func(name.into(), v.iter().map(|x| go(x, next, false)).collect())
        }
        Ast::List(v) => Ast::List(v.iter().map(|x| go(x, next, false)).collect()),
        Ast::Stmt(v) => Ast::Stmt(v.iter().map(|x| go(x, next, false)).collect()),
        Ast::Map(v) => Ast::Map(
            v.iter()
                .map(|(k, x)| {
                    let k2 = go(k, next, false);
                    let x2 = go(x, next, false);
                    (k2, x2)
                })
                .collect(),
        ),
        o => o.clone(),
    }
}

/// The program set, generated lazily: index -> (tree, leaf style). `level` 0..=2:
/// 0: <= 2 inner nodes, all 16 kinds; 1: <= 3 inner nodes, all 16 kinds;
/// 2: level 1 plus all trees of exactly 4 inner nodes over the 10 logging / assigning kinds.
pub struct Programs {
    trees: Vec<Ast>,
    chains: Vec<Ast>,
    /// wide nodes: calls, lists, maps, chains and aggregated lists of 4..65 observable elements
    wide: Vec<Ast>,
}

/// element i of a wide node: a context-function call that logs its distinct argument
fn wide_leaf(i: usize) -> Ast {
    Ast::Func("cf".into(), vec![Ast::Num(Decimal::from(i as i64))])
}

fn wide_programs() -> Vec<Ast> {
    let mut sizes: Vec<usize> = (4..=12).collect();
    sizes.extend([15, 16, 17, 31, 32, 33, 64, 65]);
    let mut v = Vec::new();
    for n in sizes {
        let leaves: Vec<Ast> = (0..n).map(wide_leaf).collect();
        v.push(Ast::Func("cf".into(), leaves.clone()));
        v.push(Ast::Func("gf".into(), leaves.clone()));
        v.push(Ast::Func("nofn".into(), leaves.clone()));
        v.push(Ast::Func("max".into(), leaves.clone()));
        v.push(Ast::List(leaves.clone()));
        v.push(Ast::Stmt(leaves.clone()));
        v.push(Ast::Map((0..n).map(|i| (wide_leaf(2 * i), wide_leaf(2 * i + 1))).collect()));
        // membership: absent, and equal to the first / middle / last element (every element is
        // still evaluated, whatever the answer)
        for needle in [1000, 0, n / 2, n - 1] {
            v.push(Ast::Binary("in".into(), Box::new(wide_leaf(needle)), Box::new(Ast::List(leaves.clone()))));
        }
        // a left-leaning operator chain over the logging infix operator
        let mut chain = wide_leaf(0);
        for i in 1..n {
            chain = Ast::Binary("lop".into(), Box::new(chain), Box::new(wide_leaf(i)));
        }
        v.push(chain);
        let mut sum = wide_leaf(0);
        for i in 1..n {
            sum = Ast::Binary("+".into(), Box::new(sum), Box::new(wide_leaf(i)));
        }
        v.push(sum);
    }
    v
}

fn reduced_kinds() -> Vec<Kind> {
    vec![
        Kind::Infix("lop".into()),
        Kind::Infix("=".into()),
        Kind::Infix("lset".into()),
        Kind::Prefix("lg".into()),
        Kind::Postfix("lpo".into()),
        Kind::Ternary,
        Kind::Call(1),
        Kind::Call(2),
        Kind::List(2),
        Kind::Map(1),
    ]
}

impl Programs {
    pub fn new(level: usize) -> Programs {
        let max = if level == 0 { 2 } else { 3 };
        let by = trees_by_size(&kinds(), max);
        let mut trees: Vec<Ast> = by.iter().skip(1).flat_map(|v| v.iter().cloned()).collect();
        if level >= 2 {
            let by4 = trees_by_size(&reduced_kinds(), 4);
            trees.extend(by4[4].iter().cloned());
        }
        // statement chains: every ordered pair of zero- and one-node trees (a bare name is a
        // statement too), and triples around a bare leaf
        let mut chains = Vec::new();
        let small: Vec<&Ast> = by[0].iter().chain(by[1].iter()).collect();
        for a in &small {
            for b in &small {
                chains.push(Ast::Stmt(vec![(*a).clone(), (*b).clone()]));
            }
        }
        for a in &by[1] {
            chains.push(Ast::Stmt(vec![by[0][0].clone(), a.clone(), by[0][0].clone(), by[0][0].clone()]));
        }
        Programs { trees, chains, wide: wide_programs() }
    }
    pub fn len(&self) -> u64 {
        (self.trees.len() * STYLES.len() + 2 * self.chains.len() + self.wide.len()) as u64
    }
    /// leaf style of program i (None for chains and wide programs)
    pub fn style_of(&self, i: u64) -> Option<&'static str> {
        if (i as usize) < self.trees.len() * STYLES.len() {
            Some(STYLES[i as usize % STYLES.len()])
        } else {
            None
        }
    }
    pub fn get(&self, i: u64) -> Ast {
        let i = i as usize;
        let n = self.trees.len() * STYLES.len();
        let mut next = 0;
        if i >= n + 2 * self.chains.len() {
            return self.wide[i - n - 2 * self.chains.len()].clone();
        }
        if i < n {
            relabel_effects(&self.trees[i / STYLES.len()], STYLES[i % STYLES.len()], &mut next, false)
        } else {
            relabel_effects(&self.chains[(i - n) / 2], if (i - n) % 2 == 0 { "mixed-true" } else { "bare" }, &mut next, false)
        }
    }
}

pub struct Run {
    pub result: Res<Value>,
    pub log: Vec<String>,
    pub vars: Vec<(String, Option<Value>)>,
}

pub fn run_engine(text: &str, ctx: &mut Context, fault: Fault, at: usize) -> Run {
    arm(fault, at);
    let result = guarded(|| {
        let ast = parse_expression(text).map_err(|e| format!("parse: {:?}", e))?;
        ast.exec(ctx).map_err(|e| format!("{:?}", e))
    });
    let log = take_log();
    arm(Fault::None, 0);
    let vars = context_vars(ctx);
    let _ = take_log();
    Run { result, log, vars }
}

/// The same program through the other public entry points, un-faulted: `execute(text, ctx)`
/// twice, and one parsed AST evaluated twice, each time on a fresh equal context. Every run
/// is returned for comparison with the reference.
pub fn run_engine_entry_points(text: &str) -> Vec<(&'static str, Run)> {
    let mut v = Vec::new();
    for name in ["execute()", "execute() again"] {
        let ctx = engine_context();
        arm(Fault::None, 0);
        let result = guarded(|| expression_engine::execute(text, crate::engine::share(&ctx)).map_err(|e| format!("{:?}", e)));
        let log = take_log();
        let vars = context_vars(&ctx);
        let _ = take_log();
        v.push((name, Run { result, log, vars }));
    }
    if let Res::Ok(ast) = guarded(|| parse_expression(text).map_err(|e| format!("parse: {:?}", e))) {
        for name in ["stored AST, first exec", "stored AST, second exec"] {
            let mut ctx = engine_context();
            arm(Fault::None, 0);
            let result = guarded(|| ast.exec(&mut ctx).map_err(|e| format!("{:?}", e)));
            let log = take_log();
            let vars = context_vars(&ctx);
            let _ = take_log();
            v.push((name, Run { result, log, vars }));
        }
    }
    v
}

pub struct ModelRun {
    pub result: Result<Value, EErr>,
    pub log: Vec<String>,
    pub vars: Vec<(String, Option<Value>)>,
}

pub fn run_model(ast: &Ast, world: &World, fault: Fault, at: usize) -> ModelRun {
    arm(fault, at);
    let mut ctx = model_context();
    let result = eval::eval(ast, &mut ctx, world);
    let log = take_log();
    arm(Fault::None, 0);
    ModelRun { result, log, vars: model_vars(&ctx) }
}

/// handler kind from a log entry such as "q3()" or "lop(1,2)"
pub fn handler_kind(entry: &str) -> &'static str {
    let name = entry.split('(').next().unwrap_or("");
    match name {
        "gf" => "global-function",
        "cf" => "context-function-call-with-args",
        "lg" => "prefix-operator",
        "lop" => "infix-operator",
        "lset" => "setter-operator",
        "lpo" => "postfix-operator",
        n if n.starts_with('p') || (n.starts_with('t') || n.starts_with('f')) => {
            // p/t/f leaves are calls when printed with "()", bare otherwise — the log cannot
            // tell, the program text can; callers refine this with `leaf_is_bare`
            "context-function"
        }
        _ => "context-function-bare-name",
    }
}

pub fn print_program(ast: &Ast, world: &World) -> String {
    parse::print(ast, &world.ops, Parens::Minimal)
}

/// Compare one (program, fault) run of the engine with the reference evaluator.
/// Returns the engine context for aftermath checks.
pub fn compare_run(ast: &Ast, text: &str, world: &World, fault: Fault, at: usize, key: &str, case: &str, out: &mut WorkerOut) -> (Context, ModelRun, Run) {
    let m = run_model(ast, world, fault, at);
    let mut ctx = engine_context();
    let e = run_engine(text, &mut ctx, fault, at);
    out.evals += 1;
    out.count("validated", 1);
    let fk = match fault {
        Fault::None => "nofault",
        Fault::Err => "err",
        Fault::ErrNested => "err-nested",
        Fault::Panic => "panic",
    };
    if e.log != m.log {
        let kind = if e.log.len() > m.log.len() && e.log[..m.log.len()] == m.log[..] {
            "evaluated-more"
        } else if e.log.len() < m.log.len() && m.log[..e.log.len()] == e.log[..] {
            "evaluated-less"
        } else {
            "order-or-arguments"
        };
        out.fail(format!("log:{}:{}:{}", kind, fk, key), case, format!("{:?}: expected log {:?}, engine log {:?}", text, m.log, e.log));
    }
    match (&m.result, &e.result, fault) {
        (Ok(w), Res::Ok(g), _) => {
            out.outcomes.insert("ok".into());
            if w != g {
                out.fail(format!("result:value:{}:{}", fk, key), case, format!("{:?}: expected {} got {}", text, show_value(w), show_value(g)));
            }
        }
        (Err(_), Res::Err(_), Fault::None) | (Err(_), Res::Err(_), Fault::Err) | (Err(_), Res::Err(_), Fault::ErrNested) => {
            out.outcomes.insert("err".into());
        }
        (Err(_), Res::Panic(msg), Fault::Panic) if msg.contains("injected fault") => {
            out.outcomes.insert("panic-propagated".into());
        }
        (Err(_), Res::Err(_), Fault::Panic) if m.log.len() <= at => {
            // the evaluation failed before the armed invocation was reached
            out.outcomes.insert("err".into());
        }
        (w, g, _) => {
            out.fail(format!("result:class:{}:{}", fk, key), case, format!("{:?}: expected {:?} got {:?}", text, w.as_ref().map(show_value), g));
        }
    }
    if e.vars.len() != m.vars.len() || e.vars.iter().zip(&m.vars).any(|(a, b)| a != b) {
        let diff: Vec<String> = e.vars.iter().filter(|x| !m.vars.contains(x)).map(|x| format!("{:?}", x)).collect();
        out.fail(format!("context:{}:{}", fk, key), case, format!("{:?}: bindings differ from the reference: engine has {:?}", text, diff));
    }
    (ctx, m, e)
}
