//! C09 — number literals and decimal arithmetic are exact (never binary floating point,
//! never rounded) whenever the exact result fits 96 bits / 28 places. Oracle: independent
//! integer arithmetic on (sign, 256-bit mantissa, scale) — no rust_decimal, no floats.
use super::common::normalise_panic;
use super::vals::{engine_exec, show_value};
use crate::core::*;
use crate::engine::Res;
use crate::model::dec::{render, Exact, MAX_MANT};
use expression_engine::Value;
use rust_decimal::Decimal;
use std::time::Duration;

pub struct C09;

#[derive(Clone, Copy, Debug, PartialEq, Eq)]
pub struct N {
    pub neg: bool,
    pub mant: u128,
    pub scale: u32,
}

impl N {
    fn exact(&self) -> Exact {
        Exact::new(self.neg, self.mant, self.scale)
    }
    fn decimal(&self) -> Decimal {
        let mut d = Decimal::from_i128_with_scale(self.mant as i128, self.scale);
        if self.neg {
            d.set_sign_negative(true);
        }
        d
    }
    fn text(&self) -> String {
        render(self.neg, self.mant, self.scale)
    }
    fn class(&self) -> String {
        let m = if self.mant == 0 {
            "0"
        } else if self.mant < 1000 {
            "small"
        } else if self.mant <= u64::MAX as u128 {
            "u64"
        } else if self.mant == MAX_MANT {
            "max"
        } else {
            "wide"
        };
        let s = match self.scale {
            0 => "s0",
            1..=3 => "s1-3",
            4..=26 => "s4-26",
            _ => "s27-28",
        };
        format!("{}{}{}", if self.neg { "-" } else { "" }, m, s)
    }
}

fn mantissas() -> Vec<u128> {
    let mut v: Vec<u128> = (0..=200).collect();
    let mut p10: u128 = 1;
    for _ in 0..=28 {
        v.extend([p10.saturating_sub(1), p10, p10 + 1]);
        p10 = p10.saturating_mul(10);
    }
    for k in 1..=96u32 {
        let p = if k == 96 { MAX_MANT } else { 1u128 << k };
        v.extend([p - 1, p]);
        if k < 96 {
            v.push(p + 1);
        }
    }
    for dgt in 1..=9u128 {
        let mut r = 0u128;
        for _ in 0..28 {
            r = r * 10 + dgt;
            v.push(r);
        }
    }
    v.extend([123456789012345678901234567u128, 7922816251426433759354395033u128, MAX_MANT - 1]);
    v.retain(|m| *m <= MAX_MANT);
    v.sort();
    v.dedup();
    v
}

/// the operand set for pairwise arithmetic
fn operands() -> Vec<N> {
    let mants: [u128; 14] = [
        0,
        1,
        2,
        3,
        7,
        10,
        99,
        1 << 32,
        (1 << 63) - 1,
        1 << 63,
        u64::MAX as u128,
        100_000_000_000_000,
        123456789012345678901234567,
        MAX_MANT,
    ];
    let mut v = Vec::new();
    for m in mants {
        for s in [0u32, 1, 2, 14, 27, 28] {
            for neg in [false, true] {
                if m == 0 && neg {
                    continue;
                }
                v.push(N { neg, mant: m, scale: s });
            }
        }
    }
    // the classics
    for (m, s) in [(1u128, 1u32), (2, 1), (3, 1), (110, 2), (11, 1), (15, 1), (25, 2)] {
        v.push(N { neg: false, mant: m, scale: s });
    }
    // one digit string at two scales 10^k apart where the smaller scale cannot be rescaled
    // to the larger one within 96 bits (8 vs 0.8000...0, 79 vs 7.900...0, 80 vs 8.00...0)
    for dgt in [7u128, 8, 9, 79, 80, 793] {
        v.push(N { neg: false, mant: dgt, scale: 0 });
        for (m, s) in [(dgt * 10u128.pow(27), 28), (dgt * 10u128.pow(26), 26)] {
            if m <= MAX_MANT {
                v.push(N { neg: false, mant: m, scale: s });
            }
        }
    }
    // negative zero (what unary minus makes of zero) at two scales
    v.push(N { neg: true, mant: 0, scale: 0 });
    v.push(N { neg: true, mant: 0, scale: 2 });
    v
}

fn square(tier: Tier) -> Vec<N> {
    let (top, scales): (u128, &[u32]) = tier.pick((100, &[0, 1, 2]), (400, &[0, 1, 2, 3]));
    let mut v = Vec::new();
    for m in 0..=top {
        for s in scales {
            v.push(N { neg: false, mant: m, scale: *s });
        }
    }
    v
}

/// Pairs one unit in a far digit apart whose scales differ, with 9..17 significant digits in
/// the shorter one: the two are closer than binary floating point resolves (or than an
/// approximate conversion keeps in order), so whatever orders, subtracts or equates them
/// through f64 gets them wrong somewhere in this family, while exact decimal never does.
fn neighbour_pairs() -> Vec<(N, N)> {
    const DIGITS: &[&str] = &["29250764489786930", "89786930982803164", "64678561795587512", "12345678901234567", "99999999999999999", "10000000000000001", "31415926535897932", "27182818284590452", "14142135623730950", "17320508075688772", "90071992547409921", "45035996273704961"];
    let mut v = Vec::new();
    for d in DIGITS {
        for len in 9..=17usize {
            let m: u128 = d[..len].parse().unwrap();
            let mut scales = vec![0u32, 1, 3, len as u32 - 1, len as u32];
            scales.dedup();
            for s in scales {
                for t in [s + 1, s + 3, s + 8, 16, 20, 27] {
                    if t <= s || t > 28 {
                        continue;
                    }
                    let up = match m.checked_mul(10u128.pow(t - s)) {
                        Some(u) if u < MAX_MANT => u,
                        _ => continue,
                    };
                    for y in [up + 1, up - 1] {
                        for neg in [false, true] {
                            let (a, b) = (N { neg, mant: m, scale: s }, N { neg, mant: y, scale: t });
                            v.push((a, b));
                            v.push((b, a));
                        }
                    }
                }
            }
        }
    }
    v
}

const NEIGHBOUR_OPS: &[&str] = &["<", "<=", ">", ">=", "==", "!=", "-", "not <", "not >="];

const OPS: &[&str] = &["+", "-", "*", "%", "<", "<=", ">", ">=", "==", "!=", "+=", "-=", "*=", "%=", "/=", "not <", "not <=", "not >", "not >=", "not ==", "not !="];

#[derive(Clone, Copy)]
enum Want {
    Num(Exact),
    Bool(bool),
    Skip,
}

fn oracle(op: &str, a: &N, b: &N) -> Want {
    use std::cmp::Ordering::*;
    let (x, y) = (a.exact(), b.exact());
    match op {
        "+" | "+=" => Want::Num(Exact::add(&x, &y)),
        "-" | "-=" => Want::Num(Exact::sub(&x, &y)),
        "*" | "*=" => Want::Num(Exact::mul(&x, &y)),
        "%" | "%=" => match Exact::rem(&x, &y) {
            Some(r) => Want::Num(r),
            None => Want::Skip,
        },
        "<" => Want::Bool(Exact::cmp(&x, &y) == Less),
        "<=" => Want::Bool(Exact::cmp(&x, &y) != Greater),
        ">" => Want::Bool(Exact::cmp(&x, &y) == Greater),
        ">=" => Want::Bool(Exact::cmp(&x, &y) != Less),
        "==" => Want::Bool(Exact::cmp(&x, &y) == Equal),
        "!=" => Want::Bool(Exact::cmp(&x, &y) != Equal),
        // x not OP y is not(x OP y): decided on the exact values like the plain forms
        "not <" => Want::Bool(Exact::cmp(&x, &y) != Less),
        "not <=" => Want::Bool(Exact::cmp(&x, &y) == Greater),
        "not >" => Want::Bool(Exact::cmp(&x, &y) != Greater),
        "not >=" => Want::Bool(Exact::cmp(&x, &y) == Less),
        "not ==" => Want::Bool(Exact::cmp(&x, &y) != Equal),
        "not !=" => Want::Bool(Exact::cmp(&x, &y) == Equal),
        // division is exact only when it terminates: decided by multiplying back
        "/=" => Want::Skip,
        _ => Want::Skip,
    }
}

fn canonical_of(d: &Decimal) -> String {
    let n = d.normalize();
    render(n.is_sign_negative() && !n.is_zero(), n.mantissa().unsigned_abs(), n.scale())
}

fn check_arith(op: &str, a: &N, b: &N, literal: bool, stage: &str, out: &mut WorkerOut) {
    let setter = op.ends_with('=') && !matches!(op.trim_start_matches("not "), "==" | "!=" | "<=" | ">=");
    let want = oracle(op, a, b);
    let (program, bindings) = if literal && !setter {
        let lit = |n: &N| if n.neg { format!("(- {})", render(false, n.mant, n.scale)) } else { n.text() };
        (format!("{} {} {}", lit(a), op, lit(b)), vec![])
    } else if setter {
        (format!("a {} b; a", op), vec![("a".to_string(), Value::Number(a.decimal())), ("b".to_string(), Value::Number(b.decimal()))])
    } else {
        (format!("a {} b", op), vec![("a".to_string(), Value::Number(a.decimal())), ("b".to_string(), Value::Number(b.decimal()))])
    };
    // a negative right operand also written tight against the operator (`10%-3`): the sign
    // belongs to the operand, whatever the operator (`--` is an operator of its own)
    let mut programs = vec![(program, "")];
    if literal && !setter && b.neg && op != "-" {
        programs.push((format!("{}{}{}-{}", if a.neg { format!("(- {})", render(false, a.mant, a.scale)) } else { a.text() }, if op.starts_with("not") { " " } else { "" }, op, render(false, b.mant, b.scale)), " tight"));
    }
    for (program, how) in programs {
    let case = format!("{}|{} {} {}{}{}", stage, a.text(), op, b.text(), if literal { " (literal)" } else { "" }, how);
    let key = format!("{}:{}:{}", op, a.class(), b.class());
    out.evals += 1;
    let got = engine_exec(&program, &bindings);
    match (want, &got.result) {
        (_, Res::Panic(m)) => out.fail(format!("panic:{}:{}", key, normalise_panic(m)), case, m.clone()),
        (Want::Skip, _) => out.count("skipped_no_exact_oracle", 1),
        (Want::Bool(w), Res::Ok(Value::Bool(g))) => {
            out.outcomes.insert(format!("bool:{}", w));
            if w != *g {
                out.fail(format!("comparison:{}", key), case, format!("expected {} got {}", w, g));
            } else {
                out.count("validated", 1);
            }
        }
        (Want::Bool(w), other) => out.fail(format!("comparison-not-bool:{}", key), case, format!("expected {} got {:?}", w, other)),
        (Want::Num(e), r) => match e.canonical() {
            None => {
                out.outcomes.insert("unrepresentable".into());
                out.count("skipped_result_does_not_fit", 1);
            }
            Some(w) => match r {
                Res::Ok(Value::Number(g)) => {
                    out.outcomes.insert("exact".into());
                    let gs = canonical_of(g);
                    if gs != w {
                        // shape of the operand pair: can the operand of smaller scale be brought to
                        // the larger scale within 96 bits? (rust_decimal's remainder goes wrong when not)
                        let (lo, hi) = if a.scale <= b.scale { (a, b) } else { (b, a) };
                        let aligned = lo.mant.checked_mul(10u128.pow(hi.scale - lo.scale)).map(|m| m <= MAX_MANT).unwrap_or(false);
                        let key = if aligned { key.clone() } else { format!("{}:scale-alignment-overflows-96-bits", op) };
                        out.fail(format!("inexact:{}", key), case, format!("exact result {} but engine returned {} ({})", w, g, gs));
                    } else {
                        out.count("validated", 1);
                    }
                }
                other => out.fail(format!("no-number-for-representable:{}", key), case, format!("exact result {} fits, engine returned {:?}", w, other.clone().map_ok_show())),
            },
        },
    }
}
}

trait ShowRes {
    fn map_ok_show(self) -> String;
}
impl ShowRes for Res<Value> {
    fn map_ok_show(self) -> String {
        match self {
            Res::Ok(v) => show_value(&v),
            Res::Err(e) => format!("Err({})", e),
            Res::Panic(m) => format!("panic({})", m),
        }
    }
}

/// literal spellings of (mant, scale) that denote exactly that decimal
fn spellings(m: u128, s: u32) -> Vec<(String, u128, u32)> {
    let base = render(false, m, s);
    let mut v = vec![(base.clone(), m, s), (format!("000{}", base), m, s)];
    if s == 0 {
        v.push((format!("{}.", base), m, 0));
    }
    // trailing zeros add scale
    if s < 28 && m <= MAX_MANT / 10 {
        let t = if s == 0 { format!("{}.0", base) } else { format!("{}0", base) };
        v.push((t, m * 10, s + 1));
    }
    v
}

pub fn invalid_literals() -> Vec<String> {
    let mut v = Vec::new();
    for base in ["1", "12", "1.5", "0.25", "100", "1.", "0"] {
        for suf in ["e5", "E5", "e", "E", "e-3", "e+3", "E-3", "e0", ".", "..", ".5.", "e5.0"] {
            let t = format!("{}{}", base, suf);
            // a single trailing dot on an integer is a valid spelling
            if suf == "." && !base.contains('.') {
                continue;
            }
            v.push(t);
        }
    }
    v.extend(["1.2.3", "1..2", "1.2.3.4", "0..", "9.9.9", "1e1e1", "3.e2"].iter().map(|s| s.to_string()));
    // exponent notation is not part of the language, whatever the exponent (type boundaries included)
    for e in ["0", "1", "28", "29", "127", "128", "255", "256", "32767", "32768", "65535", "65536", "2147483647", "2147483648", "4294967294", "4294967295", "4294967296", "9223372036854775807", "9223372036854775808", "18446744073709551615", "18446744073709551616"] {
        for base in ["1", "1.5", "0.25", "0"] {
            for sign in ["", "-", "+"] {
                v.push(format!("{}e{}{}", base, sign, e));
                v.push(format!("{}E{}{}", base, sign, e));
            }
        }
    }
    // the same malformations after a mantissa that is already full (28 and 29 digits)
    for base in ["0.1234567890123456789012345678", "1.000000000000000000000000000", "7922816251426433759354395033", "0.12345678901234567890123456789", "1.00000000000000000000000000001"] {
        for suf in ["..", ".2.3", "e5", "E-3", "e", ".5.", "e+2"] {
            if suf.starts_with('.') && !base.contains('.') && suf == ".5." {
                continue;
            }
            v.push(format!("{}{}", base, suf));
        }
    }
    v
}

impl Prop for C09 {
    fn id(&self) -> &'static str {
        "C09"
    }
    fn plan(&self, tier: Tier) -> Plan {
        let nl = mantissas().len() as u64 * 29;
        let no = operands().len() as u64;
        let ns = square(tier).len() as u64;
        Plan {
            stages: vec![
                Stage { name: "literals".into(), len: nl, chunk: (nl / 48).max(200), timeout: Duration::from_secs(600), what: "mantissa edge set x every scale 0..28 x value-preserving spellings; malformed literals".into() },
                Stage { name: "edges".into(), len: no * no, chunk: (no * no / 64).max(200), timeout: Duration::from_secs(900), what: "all ordered pairs of the edge operand set under 15 operators, via context variables and as literal text".into() },
                Stage { name: "square".into(), len: ns * ns, chunk: (ns * ns / 64).max(200), timeout: Duration::from_secs(1800), what: "complete square of small mantissas x small scales under 15 operators".into() },
                Stage { name: "neighbours".into(), len: neighbour_pairs().len() as u64, chunk: (neighbour_pairs().len() as u64 / 48).max(200), timeout: Duration::from_secs(900), what: "pairs of numbers of different scale, 9..17 significant digits in the shorter one, one unit in a far digit (up to the 27th place) apart, both signs, both orders: ordering, equality and difference must be the exact ones (closer together than binary floating point resolves)".into() },
            ],
            rule: format!(
                "literals: {} mantissas (0..200, 10^k and 10^k±1, 2^k and 2^k±1 up to 96 bits, repdigits, range boundary) x scales 0..28 x spellings (leading zeros, trailing zeros, `1.`) must evaluate to exactly (mantissa, scale); {} malformed literals must be rejected. \
                 arithmetic: all ordered pairs of {} edge operands and the complete square of {} small operands under + - * % < <= > >= == != (and their `x not OP y` forms) and += -= *= %=; the exact result is computed with 256-bit integers and, if it fits 96 bits / 28 places, the engine's result must equal it by value. distinct = distinct (operator, operand-class) key",
                mantissas().len(),
                invalid_literals().len(),
                no,
                ns
            ),
            assumptions: vec![
                "results that do not fit the range are C04's business and are skipped here (counted)".into(),
                "scale is compared for literals only; for arithmetic results numerically equal decimals are the same result".into(),
                "a finite lattice of the 2^96 x 29 domain: decides 'exact vs routed through binary floating point / rounded / rescaled', not every carry chain inside rust_decimal".into(),
            ],
            exhaustive: true,
            bound: "the lattices in 'rule'".into(),
            states_note: "states = literal texts / operand pairs; transitions = evaluations compared with the exact oracle".into(),
        }
    }
    fn run(&self, tier: Tier, stage: usize, a: u64, b: u64, out: &mut WorkerOut) {
        match stage {
            0 => {
                let ms = mantissas();
                for i in a..b {
            out.at(i);
                    let m = ms[(i / 29) as usize];
                    let s = (i % 29) as u32;
                    for (text, wm, ws) in spellings(m, s) {
                        out.evals += 1;
                        let case = format!("literals|{}", text);
                        let key = N { neg: false, mant: wm, scale: ws }.class();
                        match engine_exec(&text, &[]).result {
                            Res::Ok(Value::Number(d)) => {
                                out.outcomes.insert("literal-ok".into());
                                if d.mantissa().unsigned_abs() != wm || d.scale() != ws || d.is_sign_negative() {
                                    out.fail(format!("literal:not-preserved:{}", key), case, format!("expected mantissa {} scale {}, got {} (mantissa {} scale {})", wm, ws, d, d.mantissa(), d.scale()));
                                } else {
                                    out.count("validated", 1);
                                }
                            }
                            other => out.fail(format!("literal:rejected-valid:{}", key), case, format!("got {}", other.map_ok_show())),
                        }
                        out.nontrivial.insert(hash64(&format!("lit:{}:{}", key, text.len())));
                    }
                    // the same value written two ways, one assigned over the other: the variable
                    // holds the digits and scale written LAST (equal numbers are not "the same")
                    let sp = spellings(m, s);
                    if let (Some(first), Some(last)) = (sp.first(), sp.last()) {
                        if (first.1, first.2) != (last.1, last.2) {
                            for (p, q) in [(first, last), (last, first)] {
                                out.evals += 1;
                                let prog = format!("a = {} ; a = {} ; a", p.0, q.0);
                                match engine_exec(&prog, &[]).result {
                                    Res::Ok(Value::Number(d)) if d.mantissa().unsigned_abs() == q.1 && d.scale() == q.2 => out.count("validated", 1),
                                    other => out.fail("literal:reassigned-equal-value:not-what-was-written-last", format!("literals|{}", prog), format!("expected mantissa {} scale {}, got {}", q.1, q.2, other.map_ok_show())),
                                }
                            }
                        }
                    }
                    if i == a {
                        // malformed literals (once per worker is plenty; they are few)
                        for t in invalid_literals() {
                            out.evals += 1;
                            match engine_exec(&t, &[]).result {
                                Res::Err(_) => {
                                    out.outcomes.insert("literal-rejected".into());
                                }
                                other => out.fail("literal:malformed-accepted", format!("literals|{}", t), format!("got {}", other.map_ok_show())),
                            }
                        }
                    }
                    if i % 5003 == 1 {
                        out.sample(render(false, m, s));
                    }
                }
                out.count("states", b - a);
                out.count("transitions", b - a);
            }
            3 => {
                let ps = neighbour_pairs();
                for i in a..b {
                    out.at(i);
                    let (x, y) = &ps[i as usize];
                    for op in NEIGHBOUR_OPS {
                        check_arith(op, x, y, false, "neighbours", out);
                        check_arith(op, x, y, true, "neighbours", out);
                    }
                    if i % 1009 == 1 {
                        out.sample(format!("{} <op> {}", x.text(), y.text()));
                    }
                }
                out.count("states", b - a);
                out.count("transitions", (b - a) * NEIGHBOUR_OPS.len() as u64 * 2);
            }
            _ => {
                let set = if stage == 1 { operands() } else { square(tier) };
                let n = set.len() as u64;
                let name = if stage == 1 { "edges" } else { "square" };
                for i in a..b {
            out.at(i);
                    let x = &set[(i / n) as usize];
                    let y = &set[(i % n) as usize];
                    for op in OPS {
                        check_arith(op, x, y, false, name, out);
                        if stage == 1 || (i % 7 == 0) {
                            check_arith(op, x, y, true, name, out);
                        }
                        out.nontrivial.insert(hash64(&format!("{}:{}:{}", op, x.class(), y.class())));
                    }
                    if i % 10007 == 1 {
                        out.sample(format!("{} <op> {}", x.text(), y.text()));
                    }
                }
                out.count("states", b - a);
                out.count("transitions", (b - a) * OPS.len() as u64);
            }
        }
    }
    fn case_text(&self, tier: Tier, stage: usize, i: u64) -> String {
        match stage {
            0 => {
                let ms = mantissas();
                render(false, ms[(i / 29) as usize], (i % 29) as u32)
            }
            3 => {
                let (x, y) = neighbour_pairs()[i as usize];
                format!("{} <op> {}", x.text(), y.text())
            }
            _ => {
                let set = if stage == 1 { operands() } else { square(tier) };
                let n = set.len() as u64;
                format!("{} <op> {}", set[(i / n) as usize].text(), set[(i % n) as usize].text())
            }
        }
    }
    fn min_outcomes(&self) -> usize {
        4
    }
}
