//! C02 — operators group exactly by the documented precedence and associativity.
//! (a) tree-driven: every AST of the shared program set is printed by the *model* printer
//!     with minimal parentheses; the engine must parse the text back to that AST.
//! (b) token-driven: every token sequence the reference parser accepts must be parsed by
//!     the engine to the same AST.
use super::tokens::*;
use crate::core::*;
use crate::engine::{self, Res};
use crate::gen::{program_trees, show};
use crate::model::lex::OpSet;
use crate::model::parse::{self, as_infix, count_nodes, Ast, Parens};
use std::time::Duration;

pub struct C02;

fn seqs(tier: Tier) -> TokenSeqs {
    TokenSeqs { alphabet: TOKENS.to_vec(), max_len: tier.pick(5, 6) }
}

/// class key from the shape of the expected tree: kinds of the root and its children
pub fn shape_key(t: &Ast, ops: &OpSet) -> String {
    fn k(t: &Ast, ops: &OpSet) -> String {
        if let Some((neg, op, _, _)) = as_infix(t, ops) {
            let i = &ops.infix[op];
            return format!("{}infix@{}{}", if neg { "not-" } else { "" }, i.prec, if i.left { "L" } else { "R" });
        }
        match t {
            Ast::Unary(..) => "prefix".into(),
            Ast::Postfix(..) => "postfix".into(),
            Ast::Ternary(..) => "ternary".into(),
            Ast::Func(..) => "call".into(),
            Ast::List(_) => "list".into(),
            Ast::Map(_) => "map".into(),
            Ast::Stmt(_) => "chain".into(),
            _ => "atom".into(),
        }
    }
    let children: Vec<String> = match t {
        Ast::Binary(_, l, r) => vec![k(l, ops), k(r, ops)],
        Ast::Unary(_, x) => match &**x {
            Ast::Binary(_, l, r) if as_infix(t, ops).is_some() => vec![k(l, ops), k(r, ops)],
            _ => vec![k(x, ops)],
        },
        Ast::Postfix(x, _) => vec![k(x, ops)],
        Ast::Ternary(a, b, c) => vec![k(a, ops), k(b, ops), k(c, ops)],
        Ast::Func(_, v) | Ast::List(v) | Ast::Stmt(v) => v.iter().map(|x| k(x, ops)).collect(),
        Ast::Map(v) => v.iter().flat_map(|(a, b)| vec![k(a, ops), k(b, ops)]).collect(),
        _ => vec![],
    };
    format!("{}({})", k(t, ops), children.join(","))
}

/// first node (pre-order) at which the two trees differ, as a shape key of the expected node
fn diff_key(want: &Ast, got: &Ast, ops: &OpSet) -> String {
    fn children(t: &Ast) -> Vec<&Ast> {
        match t {
            Ast::Unary(_, x) | Ast::Postfix(x, _) => vec![x],
            Ast::Binary(_, l, r) => vec![l, r],
            Ast::Ternary(a, b, c) => vec![a, b, c],
            Ast::Func(_, v) | Ast::List(v) | Ast::Stmt(v) => v.iter().collect(),
            Ast::Map(v) => v.iter().flat_map(|(a, b)| vec![a, b]).collect(),
            _ => vec![],
        }
    }
    fn same_head(a: &Ast, b: &Ast) -> bool {
        match (a, b) {
            (Ast::Unary(x, _), Ast::Unary(y, _)) => x == y,
            (Ast::Postfix(_, x), Ast::Postfix(_, y)) => x == y,
            (Ast::Binary(x, _, _), Ast::Binary(y, _, _)) => x == y,
            (Ast::Ternary(..), Ast::Ternary(..)) => true,
            (Ast::Func(x, v), Ast::Func(y, w)) => x == y && v.len() == w.len(),
            (Ast::List(v), Ast::List(w)) | (Ast::Stmt(v), Ast::Stmt(w)) => v.len() == w.len(),
            (Ast::Map(v), Ast::Map(w)) => v.len() == w.len(),
            _ => a == b,
        }
    }
    if !same_head(want, got) {
        return shape_key(want, ops);
    }
    for (w, g) in children(want).into_iter().zip(children(got)) {
        if w != g {
            return diff_key(w, g, ops);
        }
    }
    shape_key(want, ops)
}

pub fn compare(text: &str, want: &Ast, ops: &OpSet, stage: &str, out: &mut WorkerOut) {
    out.evals += 1;
    match engine::parse(text) {
        Res::Ok(got) => {
            if &got == want {
                out.outcomes.insert("same-ast".into());
                out.count("validated", 1);
            } else {
                out.outcomes.insert("different-ast".into());
                out.fail(
                    format!("grouping:{}", diff_key(want, &got, ops)),
                    format!("{}|{}", stage, show(text)),
                    format!("expected {:?} got {:?}", want, got),
                );
            }
        }
        Res::Err(e) => {
            out.outcomes.insert("engine-rejects".into());
            out.fail(
                format!("rejected-valid:{}", shape_key(want, ops)),
                format!("{}|{}", stage, show(text)),
                format!("the reference grammar accepts this as {:?}; engine: {}", want, e),
            );
        }
        Res::Panic(m) => out.fail("panic:parse", format!("{}|{}", stage, show(text)), m),
    }
}

/// Stage "reregister": one fresh process per history of <= 3 registrations of the infix
/// operator `xop` (precedence / associativity from C12's list), optionally with every
/// re-registration made by another thread; after every step every tree of <= 3 infix nodes
/// over {xop, *, +, in}, printed minimally and fully parenthesised under the table of that
/// moment, must parse to exactly that tree.
fn run_rereg(h: &[(i32, bool)], xthread: bool, out: &mut WorkerOut) {
    use crate::gen::{relabel, trees_by_size, Kind};
    use crate::model::lex::InfixInfo;
    use expression_engine::{InfixOpAssociativity, InfixOpType};
    let kinds: Vec<Kind> = ["xop", "*", "+", "in"].iter().map(|o| Kind::Infix(o.to_string())).collect();
    let trees = trees_by_size(&kinds, 3);
    let rot = crate::gen::leaf_rotation();
    let mut ops = OpSet::builtin();
    let tail = if xthread { " re-registrations by another thread" } else { "" };
    for (step, (prec, left)) in h.iter().enumerate() {
        let (p, l) = (*prec, *left);
        // one handler object for every registration of the history (a clone of the same Arc)
        let hnd = super::c12::xop_handler();
        let reg = move || expression_engine::register_infix_op("xop", p, InfixOpType::CALC, if l { InfixOpAssociativity::LEFT } else { InfixOpAssociativity::RIGHT }, hnd);
        if xthread && step > 0 {
            std::thread::spawn(reg).join().expect("registration thread");
        } else {
            reg();
        }
        ops.infix.insert("xop".into(), InfixInfo { prec: *prec, left: *left, setter: false });
        let mut tmp = WorkerOut::default();
        for t in trees[1].iter().chain(trees[2].iter()).chain(trees[3].iter()) {
            let mut n = 0;
            let t = relabel(t, &mut n, &rot);
            for parens in [Parens::Minimal, Parens::Full] {
                let text = parse::print(&t, &ops, parens);
                compare(&text, &t, &ops, "x", &mut tmp);
            }
        }
        let fails = std::mem::take(&mut tmp.fails);
        out.merge(tmp);
        for (k, (f, _)) in fails {
            out.fail(k, format!("reregister|{:?}{}", h, tail), format!("after registration {} of the history, {}: {}", step + 1, f.case, f.detail));
        }
    }
}

/// Operators registered in a second position under the same symbol: `%` also postfix, `*` also
/// prefix, `!` also infix, `++` also infix. Registers them and returns the matching table.
pub fn install_dual_role() -> OpSet {
    use crate::model::lex::InfixInfo;
    use expression_engine::{InfixOpAssociativity, InfixOpType};
    use std::sync::Arc;
    let mut ops = OpSet::builtin();
    expression_engine::register_postfix_op("%", Arc::new(|v| Ok(v)));
    ops.postfix.insert("%".into());
    expression_engine::register_prefix_op("*", Arc::new(|v| Ok(v)));
    ops.prefix.insert("*".into());
    expression_engine::register_infix_op("!", 105, InfixOpType::CALC, InfixOpAssociativity::LEFT, Arc::new(|a, _| Ok(a)));
    ops.infix.insert("!".into(), InfixInfo { prec: 105, left: true, setter: false });
    expression_engine::register_infix_op("++", 115, InfixOpType::CALC, InfixOpAssociativity::LEFT, Arc::new(|a, _| Ok(a)));
    ops.infix.insert("++".into(), InfixInfo { prec: 115, left: true, setter: false });
    // a word operator that differs from the keyword `not` only in case
    expression_engine::register_infix_op("NOT", 105, InfixOpType::CALC, InfixOpAssociativity::LEFT, Arc::new(|a, _| Ok(a)));
    ops.infix.insert("NOT".into(), InfixInfo { prec: 105, left: true, setter: false });
    // (not a dual role, but it lives in the same fresh process: an operator whose name is one
    // multi-byte character)
    expression_engine::register_infix_op("\u{2264}", 60, InfixOpType::CALC, InfixOpAssociativity::LEFT, Arc::new(|a, _| Ok(a)));
    ops.infix.insert("\u{2264}".into(), InfixInfo { prec: 60, left: true, setter: false });
    ops
}

pub const DUAL_TOKENS: &[&str] = &["1", "x", "%", "*", "!", "++", "(", ")", "+", "-", "[", "]", "NOT", "not"];

pub fn programs(tier: Tier) -> Vec<Ast> {
    program_trees(tier.pick(0, 1))
}

impl Prop for C02 {
    fn id(&self) -> &'static str {
        "C02"
    }
    fn plan(&self, tier: Tier) -> Plan {
        let n = programs(tier).len() as u64;
        let s = seqs(tier);
        Plan {
            stages: vec![
                Stage {
                    name: "trees".into(),
                    len: n,
                    chunk: (n / 20).max(500),
                    timeout: Duration::from_secs(900),
                    what: "model ASTs printed with minimal parentheses (and once fully parenthesised)".into(),
                },
                Stage {
                    name: "tokens".into(),
                    len: s.len(),
                    chunk: (s.len() / 64).max(2000),
                    timeout: Duration::from_secs(1200),
                    what: format!("token sequences of <= {} tokens accepted by the reference parser", s.max_len),
                },
                Stage {
                    name: "reregister".into(),
                    len: 2 * super::c12::rereg_histories().len() as u64,
                    chunk: 1,
                    timeout: Duration::from_secs(60),
                    what: "histories of <= 3 registrations of one infix operator over 6 (precedence, associativity) pairs, each in a fresh process, with and without the re-registrations being made by another (joined) thread; after every step every tree of <= 3 infix nodes over {xop, *, +, in} (minimal and full parentheses) must parse to itself under the table of that moment".into(),
                },
                Stage {
                    name: "dual-role".into(),
                    len: 1,
                    chunk: 1,
                    timeout: Duration::from_secs(600),
                    what: "fresh process: `%` also registered as postfix, `*` as prefix, `!` and `++` as infix; every sequence of <= 6 tokens over {1, x, %, *, !, ++, (, ), +, -} that the reference parser accepts under that table must give the reference AST (spaced and glued)".into(),
                },
                Stage {
                    name: "deep".into(),
                    len: super::c03::deep_cases().len() as u64,
                    chunk: 40,
                    timeout: Duration::from_secs(600),
                    what: "19 chain / nesting shapes at sizes around 16, 32, 64, 128, 256, 512, 1024: the engine's AST must equal the reference parser's".into(),
                },
                Stage {
                    name: "multibyte-prefix".into(),
                    len: n,
                    chunk: (n / 20).max(500),
                    timeout: Duration::from_secs(900),
                    what: "every third program of the tree set as the second statement after a string literal that carries k = 1, 2, 3, 5, 8 more bytes than characters (whatever indexes the text by characters where it should use bytes, or the reverse, is off by k behind it)".into(),
                },
                Stage {
                    name: "schedules".into(),
                    len: super::c13::grouping_workloads().len() as u64,
                    chunk: 1,
                    timeout: Duration::from_secs(900),
                    what: "parses whose grouping depends on an operator racing a re-registration of that operator with the precedence and associativity it already has, under the controlled scheduler: all schedules with <= 2 (3) preemptions; every parse must give a tree that some sequential order gives (there is only one)".into(),
                },
            ],
            rule: format!(
                "(a) every AST with <= {} infix nodes over all 32 built-in infix operators in every shape, plus every AST with <= 3 operator nodes over 15 representative infix operators, `not OP`, prefix, postfix, conditional, call, list, map, and two-statement chains; \
                 (b) every sequence of <= {} tokens over {} spellings that the reference parser accepts. non-trivial = >= 1 operator node, distinct = distinct AST",
                tier.pick(2, 3),
                s.max_len,
                TOKENS.len()
            ),
            assumptions: vec![
                "precedence decisions in the operator loop are pairwise, so 3 nested nodes exhibit every (outer, middle, inner) combination".into(),
                "the operator table in the model is the documented one (README + property text), not read from the engine".into(),
            ],
            exhaustive: true,
            bound: format!("{} program trees; <= {} tokens", n, s.max_len),
            states_note: "states = distinct ASTs / token sequences enumerated; transitions = parse comparisons".into(),
        }
    }
    fn run(&self, tier: Tier, stage: usize, a: u64, b: u64, out: &mut WorkerOut) {
        let ops = OpSet::builtin();
        if stage == 6 {
            let ws = super::c13::grouping_workloads();
            for i in a..b {
                out.at(i);
                super::c13::check_workload(&ws[i as usize], tier.pick(2, 3), Duration::from_secs(tier.pick(60, 600)), out);
            }
            return;
        }
        if stage == 0 {
            let progs = programs(tier);
            for i in a..b {
            out.at(i);
                let t = &progs[i as usize];
                let text = parse::print(t, &ops, Parens::Minimal);
                // the model must agree with itself before it is used as an oracle
                match parse::parse(&text, &ops) {
                    Ok(m) if &m == t => {}
                    other => {
                        out.fail("generator:model-roundtrip", format!("trees|{}", show(&text)), format!("model parses its own print of {:?} as {:?}", t, other));
                        continue;
                    }
                }
                compare(&text, t, &ops, "trees", out);
                let full = parse::print(t, &ops, Parens::Full);
                compare(&full, t, &ops, "trees", out);
                if count_nodes(t) >= 1 {
                    out.nontrivial.insert(hash64(&text));
                }
                if i % 9973 == 1 {
                    out.sample(show(&text));
                }
            }
            out.count("states", b - a);
            out.count("transitions", 2 * (b - a));
            return;
        }
        if stage == 3 {
            out.at(0);
            let ops = install_dual_role();
            let seqs = TokenSeqs { alphabet: DUAL_TOKENS.to_vec(), max_len: 6 };
            for i in 0..seqs.len() {
                for text in [seqs.spaced(i), seqs.glued(i)] {
                    if let Ok(want) = parse::parse(&text, &ops) {
                        compare(&text, &want, &ops, "dual-role", out);
                        if count_nodes(&want) >= 1 {
                            out.nontrivial.insert(hash64(&format!("dual{:?}", want)));
                        }
                    }
                }
            }
            out.count("states", seqs.len());
            out.count("transitions", seqs.len());
            return;
        }
        if stage == 5 {
            let progs = programs(tier);
            for i in a..b {
                out.at(i);
                if i % 3 != 0 {
                    continue;
                }
                let t = &progs[i as usize];
                let text = parse::print(t, &ops, Parens::Minimal);
                for prefix in ["\u{e9}", "\u{20ac}", "\u{1f600}", "\u{20ac}\u{1f600}", "\u{20ac}\u{20ac}\u{20ac}\u{20ac}"] {
                    let full = format!("'{}' ; {}", prefix, text);
                    if let Ok(want) = parse::parse(&full, &ops) {
                        compare(&full, &want, &ops, "multibyte-prefix", out);
                    }
                }
            }
            out.count("states", b - a);
            out.count("transitions", b - a);
            return;
        }
        if stage == 4 {
            let cases = super::c03::deep_cases();
            for i in a..b {
                out.at(i);
                let c = &cases[i as usize];
                let want = match parse::parse(&c.program, &ops) {
                    Ok(w) => w,
                    Err(e) => {
                        out.fail("generator:deep-program-rejected-by-model", format!("deep|{}", c.key), format!("{:?}", e));
                        continue;
                    }
                };
                let mut tmp = WorkerOut::default();
                compare(&c.program, &want, &ops, "deep", &mut tmp);
                let fails = std::mem::take(&mut tmp.fails);
                out.merge(tmp);
                for (k, (f, _)) in fails {
                    out.fail(format!("{}:{}", k.split(':').next().unwrap_or(""), c.key.split(':').take(2).collect::<Vec<_>>().join(":")), format!("deep|{}", c.key), f.detail.chars().take(300).collect::<String>());
                }
                out.nontrivial.insert(hash64(&c.key));
            }
            out.count("states", b - a);
            out.count("transitions", b - a);
            return;
        }
        if stage == 2 {
            let hs = super::c12::rereg_histories();
            for i in a..b {
                out.at(i);
                let (h, xthread) = (&hs[i as usize % hs.len()], i as usize >= hs.len());
                run_rereg(h, xthread, out);
                out.count("states", h.len() as u64);
                out.count("transitions", h.len() as u64);
            }
            return;
        }
        let s = seqs(tier);
        for i in a..b {
            out.at(i);
            for text in [s.spaced(i), s.glued(i)] {
                if let Ok(want) = parse::parse(&text, &ops) {
                    compare(&text, &want, &ops, "tokens", out);
                    if count_nodes(&want) >= 1 {
                        out.nontrivial.insert(hash64(&format!("{:?}", want)));
                    }
                    if out.evals % 50_021 == 1 {
                        out.sample(show(&text));
                    }
                }
            }
        }
        out.count("states", b - a);
        out.count("transitions", b - a);
    }
    fn case_text(&self, tier: Tier, stage: usize, i: u64) -> String {
        if stage == 6 {
            return super::c13::grouping_workloads()[i as usize].name.to_string();
        }
        if stage == 0 {
            let ops = OpSet::builtin();
            return show(&parse::print(&programs(tier)[i as usize], &ops, Parens::Minimal));
        }
        if stage == 3 {
            return "dual-role operator table".to_string();
        }
        if stage == 4 {
            return super::c03::deep_cases()[i as usize].key.clone();
        }
        if stage == 5 {
            let ops = OpSet::builtin();
            return show(&parse::print(&programs(tier)[i as usize], &ops, Parens::Minimal));
        }
        if stage == 2 {
            let hs = super::c12::rereg_histories();
            return format!("{:?}{}", hs[i as usize % hs.len()], if i as usize >= hs.len() { " re-registrations by another thread" } else { "" });
        }
        show(&seqs(tier).spaced(i))
    }
    fn min_outcomes(&self) -> usize {
        1
    }
}
