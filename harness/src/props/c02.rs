//! C02 — operators group exactly by the documented precedence and associativity.
//! (a) tree-driven: every AST of the shared program set is printed by the *model* printer
//!     with minimal parentheses; the engine must parse the text back to that AST.
//! (b) token-driven: every token sequence the reference parser accepts must be parsed by
//!     the engine to the same AST.
use super::tokens::*;
use crate::core::*;
use crate::engine::{self, Res};
use crate::gen::{program_trees, show};
use crate::model::lex::OpSet;
use crate::model::parse::{self, as_infix, count_nodes, Ast, Parens};
use std::time::Duration;

pub struct C02;

fn seqs(tier: Tier) -> TokenSeqs {
    TokenSeqs { alphabet: TOKENS.to_vec(), max_len: tier.pick(5, 6) }
}

/// class key from the shape of the expected tree: kinds of the root and its children
pub fn shape_key(t: &Ast, ops: &OpSet) -> String {
    fn k(t: &Ast, ops: &OpSet) -> String {
        if let Some((neg, op, _, _)) = as_infix(t, ops) {
            let i = &ops.infix[op];
            return format!("{}infix@{}{}", if neg { "not-" } else { "" }, i.prec, if i.left { "L" } else { "R" });
        }
        match t {
            Ast::Unary(..) => "prefix".into(),
            Ast::Postfix(..) => "postfix".into(),
            Ast::Ternary(..) => "ternary".into(),
            Ast::Func(..) => "call".into(),
            Ast::List(_) => "list".into(),
            Ast::Map(_) => "map".into(),
            Ast::Stmt(_) => "chain".into(),
            _ => "atom".into(),
        }
    }
    let children: Vec<String> = match t {
        Ast::Binary(_, l, r) => vec![k(l, ops), k(r, ops)],
        Ast::Unary(_, x) => match &**x {
            Ast::Binary(_, l, r) if as_infix(t, ops).is_some() => vec![k(l, ops), k(r, ops)],
            _ => vec![k(x, ops)],
        },
        Ast::Postfix(x, _) => vec![k(x, ops)],
        Ast::Ternary(a, b, c) => vec![k(a, ops), k(b, ops), k(c, ops)],
        Ast::Func(_, v) | Ast::List(v) | Ast::Stmt(v) => v.iter().map(|x| k(x, ops)).collect(),
        Ast::Map(v) => v.iter().flat_map(|(a, b)| vec![k(a, ops), k(b, ops)]).collect(),
        _ => vec![],
    };
    format!("{}({})", k(t, ops), children.join(","))
}

/// first node (pre-order) at which the two trees differ, as a shape key of the expected node
fn diff_key(want: &Ast, got: &Ast, ops: &OpSet) -> String {
    fn children(t: &Ast) -> Vec<&Ast> {
        match t {
            Ast::Unary(_, x) | Ast::Postfix(x, _) => vec![x],
            Ast::Binary(_, l, r) => vec![l, r],
            Ast::Ternary(a, b, c) => vec![a, b, c],
            Ast::Func(_, v) | Ast::List(v) | Ast::Stmt(v) => v.iter().collect(),
            Ast::Map(v) => v.iter().flat_map(|(a, b)| vec![a, b]).collect(),
            _ => vec![],
        }
    }
    fn same_head(a: &Ast, b: &Ast) -> bool {
        match (a, b) {
            (Ast::Unary(x, _), Ast::Unary(y, _)) => x == y,
            (Ast::Postfix(_, x), Ast::Postfix(_, y)) => x == y,
            (Ast::Binary(x, _, _), Ast::Binary(y, _, _)) => x == y,
            (Ast::Ternary(..), Ast::Ternary(..)) => true,
            (Ast::Func(x, v), Ast::Func(y, w)) => x == y && v.len() == w.len(),
            (Ast::List(v), Ast::List(w)) | (Ast::Stmt(v), Ast::Stmt(w)) => v.len() == w.len(),
            (Ast::Map(v), Ast::Map(w)) => v.len() == w.len(),
            _ => a == b,
        }
    }
    if !same_head(want, got) {
        return shape_key(want, ops);
    }
    for (w, g) in children(want).into_iter().zip(children(got)) {
        if w != g {
            return diff_key(w, g, ops);
        }
    }
    shape_key(want, ops)
}

pub fn compare(text: &str, want: &Ast, ops: &OpSet, stage: &str, out: &mut WorkerOut) {
    out.evals += 1;
    match engine::parse(text) {
        Res::Ok(got) => {
            if &got == want {
                out.outcomes.insert("same-ast".into());
                out.count("validated", 1);
            } else {
                out.outcomes.insert("different-ast".into());
                out.fail(
                    format!("grouping:{}", diff_key(want, &got, ops)),
                    format!("{}|{}", stage, show(text)),
                    format!("expected {:?} got {:?}", want, got),
                );
            }
        }
        Res::Err(e) => {
            out.outcomes.insert("engine-rejects".into());
            out.fail(
                format!("rejected-valid:{}", shape_key(want, ops)),
                format!("{}|{}", stage, show(text)),
                format!("the reference grammar accepts this as {:?}; engine: {}", want, e),
            );
        }
        Res::Panic(m) => out.fail("panic:parse", format!("{}|{}", stage, show(text)), m),
    }
}

pub fn programs(tier: Tier) -> Vec<Ast> {
    program_trees(tier.pick(0, 1))
}

impl Prop for C02 {
    fn id(&self) -> &'static str {
        "C02"
    }
    fn plan(&self, tier: Tier) -> Plan {
        let n = programs(tier).len() as u64;
        let s = seqs(tier);
        Plan {
            stages: vec![
                Stage {
                    name: "trees".into(),
                    len: n,
                    chunk: (n / 20).max(500),
                    timeout: Duration::from_secs(900),
                    what: "model ASTs printed with minimal parentheses (and once fully parenthesised)".into(),
                },
                Stage {
                    name: "tokens".into(),
                    len: s.len(),
                    chunk: (s.len() / 64).max(2000),
                    timeout: Duration::from_secs(1200),
                    what: format!("token sequences of <= {} tokens accepted by the reference parser", s.max_len),
                },
            ],
            rule: format!(
                "(a) every AST with <= {} infix nodes over all 32 built-in infix operators in every shape, plus every AST with <= 3 operator nodes over 15 representative infix operators, `not OP`, prefix, postfix, conditional, call, list, map, and two-statement chains; \
                 (b) every sequence of <= {} tokens over {} spellings that the reference parser accepts. non-trivial = >= 1 operator node, distinct = distinct AST",
                tier.pick(2, 3),
                s.max_len,
                TOKENS.len()
            ),
            assumptions: vec![
                "precedence decisions in the operator loop are pairwise, so 3 nested nodes exhibit every (outer, middle, inner) combination".into(),
                "the operator table in the model is the documented one (README + property text), not read from the engine".into(),
            ],
            exhaustive: true,
            bound: format!("{} program trees; <= {} tokens", n, s.max_len),
            states_note: "states = distinct ASTs / token sequences enumerated; transitions = parse comparisons".into(),
        }
    }
    fn run(&self, tier: Tier, stage: usize, a: u64, b: u64, out: &mut WorkerOut) {
        let ops = OpSet::builtin();
        if stage == 0 {
            let progs = programs(tier);
            for i in a..b {
            out.idx = Some(i);
                let t = &progs[i as usize];
                let text = parse::print(t, &ops, Parens::Minimal);
                // the model must agree with itself before it is used as an oracle
                match parse::parse(&text, &ops) {
                    Ok(m) if &m == t => {}
                    other => {
                        out.fail("generator:model-roundtrip", format!("trees|{}", show(&text)), format!("model parses its own print of {:?} as {:?}", t, other));
                        continue;
                    }
                }
                compare(&text, t, &ops, "trees", out);
                let full = parse::print(t, &ops, Parens::Full);
                compare(&full, t, &ops, "trees", out);
                if count_nodes(t) >= 1 {
                    out.nontrivial.insert(hash64(&text));
                }
                if i % 9973 == 1 {
                    out.sample(show(&text));
                }
            }
            out.count("states", b - a);
            out.count("transitions", 2 * (b - a));
            return;
        }
        let s = seqs(tier);
        for i in a..b {
            out.idx = Some(i);
            for text in [s.spaced(i), s.glued(i)] {
                if let Ok(want) = parse::parse(&text, &ops) {
                    compare(&text, &want, &ops, "tokens", out);
                    if count_nodes(&want) >= 1 {
                        out.nontrivial.insert(hash64(&format!("{:?}", want)));
                    }
                    if out.evals % 50_021 == 1 {
                        out.sample(show(&text));
                    }
                }
            }
        }
        out.count("states", b - a);
        out.count("transitions", b - a);
    }
    fn case_text(&self, tier: Tier, stage: usize, i: u64) -> String {
        if stage == 0 {
            let ops = OpSet::builtin();
            return show(&parse::print(&programs(tier)[i as usize], &ops, Parens::Minimal));
        }
        show(&seqs(tier).spaced(i))
    }
    fn min_outcomes(&self) -> usize {
        1
    }
}
