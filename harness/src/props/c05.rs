//! C05 — malformed input is rejected, never silently repaired.
//! Every token sequence up to a length bound, every fragment string of the C01 sweep and
//! every single-edit corruption of the valid program set is judged by the reference
//! recogniser; whatever it rejects, the engine must reject.
use super::common::*;
use super::tokens::*;
use crate::core::*;
use crate::engine::{self, Res};
use crate::gen::{program_trees, show, Strings};
use crate::model::lex::{kinds, lex, OpSet};
use crate::model::parse::{self, PErr, Parens};
use std::time::Duration;

pub struct C05;

fn seqs(tier: Tier) -> Vec<TokenSeqs> {
    match tier {
        Tier::Quick => vec![
            TokenSeqs { alphabet: TOKENS.to_vec(), max_len: 5 },
            TokenSeqs { alphabet: TOKENS_SMALL.to_vec(), max_len: 6 },
        ],
        Tier::Thorough => vec![
            TokenSeqs { alphabet: TOKENS.to_vec(), max_len: 6 },
            TokenSeqs { alphabet: TOKENS_SMALL.to_vec(), max_len: 7 },
        ],
    }
}

fn sweep(tier: Tier) -> Strings {
    Strings::new(FRAGMENTS, tier.pick(4, 5))
}

fn sweep_wide(tier: Tier) -> Strings {
    Strings::new(&fragments_wide(), tier.pick(3, 4))
}

fn perr_class(e: &PErr) -> String {
    match e {
        PErr::Lex(l) => format!("lex-{:?}", l),
        PErr::UnexpectedEof => "unexpected-eof".into(),
        PErr::UnexpectedToken => "unexpected-token".into(),
        PErr::NotPrefixOp => "operator-without-left-operand".into(),
        PErr::ExpectedInfixAfterNot => "not-without-infix-operator".into(),
        PErr::Expected(t) => format!("expected-{}", t),
        PErr::NumberOutOfDomain => "number-out-of-domain".into(),
    }
}

/// Judge one text. Returns true if the model accepts it.
pub fn judge(text: &str, ops: &OpSet, stage: &str, out: &mut WorkerOut) -> bool {
    out.evals += 1;
    let model = parse::parse(text, ops);
    let got = engine::parse(text);
    match (&model, &got) {
        (Err(PErr::NumberOutOfDomain), _) => {
            out.count("skipped_out_of_domain", 1);
            false
        }
        (Err(e), Res::Ok(ast)) => {
            out.outcomes.insert("model-reject/engine-accept".into());
            out.fail(
                format!("accepted-malformed:{}", perr_class(e)),
                format!("{}|{}", stage, show(text)),
                format!("reference grammar rejects ({:?}) but parse_expression returned {:?}", e, ast),
            );
            false
        }
        (Err(_), Res::Panic(m)) => {
            out.outcomes.insert("model-reject/engine-panic".into());
            out.fail(format!("panic:parse:{}", normalise_panic(m)), format!("{}|{}", stage, show(text)), m.clone());
            false
        }
        (Err(e), Res::Err(_)) => {
            out.outcomes.insert("both-reject".into());
            out.count("rejected", 1);
            // "and therefore execute": for inputs of at most two plain words (operator words, names, numbers) the one-call entry point is asked too, on
            // a context that binds every operator word and name of the alphabets as a variable
            if text.len() <= 24 && text.split_whitespace().count() <= 2 && text.chars().all(|c| c.is_ascii_alphanumeric() || c == ' ' || c == '_' || c == '.') {
                let mut ctx = expression_engine::Context::new();
                for n in ["in", "not", "AND", "OR", "beginWith", "endWith", "wop", "x", "a", "true", "e", "E", "_"] {
                    ctx.set_variable(n, expression_engine::Value::from(7));
                }
                // ... and the whole text, and each of its words, as a name
                ctx.set_variable(text, expression_engine::Value::from(7));
                for w in text.split_whitespace() {
                    ctx.set_variable(w, expression_engine::Value::from(7));
                }
                out.evals += 1;
                match engine::execute(text, ctx) {
                    Res::Ok(v) => out.fail(
                        format!("accepted-malformed:execute:{}", perr_class(e)),
                        format!("{}|{}", stage, show(text)),
                        format!("reference grammar rejects ({:?}) and parse_expression rejects, but execute returned Ok({:?})", e, v),
                    ),
                    Res::Panic(m) => out.fail(format!("panic:execute:{}", normalise_panic(&m)), format!("{}|{}", stage, show(text)), m),
                    Res::Err(_) => {}
                }
            }
            false
        }
        (Ok(_), r) => {
            out.outcomes.insert(format!("model-accept/engine-{}", r.class()));
            out.count("accepted_by_model", 1);
            true
        }
    }
}

/// single-edit corruptions of a valid program text
pub fn corruptions(text: &str, ops: &OpSet) -> Vec<String> {
    let mut v = Vec::new();
    let toks = match lex(text, ops) {
        Ok(t) => t,
        Err(_) => return v,
    };
    let piece = |i: usize| &text[toks[i].start..toks[i].end];
    let join = |parts: Vec<String>| parts.join(" ");
    let all: Vec<String> = (0..toks.len()).map(|i| piece(i).to_string()).collect();
    // delete one token
    for i in 0..all.len() {
        let mut p = all.clone();
        p.remove(i);
        v.push(join(p));
    }
    // swap two adjacent tokens
    for i in 0..all.len().saturating_sub(1) {
        let mut p = all.clone();
        p.swap(i, i + 1);
        v.push(join(p));
    }
    // replace one token by each token of a small replacement set
    for i in 0..all.len() {
        for r in [")", "]", "}", "(", ",", ":", ";", "?", "*", "1", "':'", "','"] {
            if all[i] != r {
                let mut p = all.clone();
                p[i] = r.to_string();
                v.push(join(p));
            }
        }
    }
    // byte level: delete / duplicate one character
    let chars: Vec<(usize, char)> = text.char_indices().collect();
    for (k, (pos, ch)) in chars.iter().enumerate() {
        let mut s = String::with_capacity(text.len());
        s.push_str(&text[..*pos]);
        s.push_str(&text[*pos + ch.len_utf8()..]);
        v.push(s);
        if k % 2 == 0 {
            let mut d = String::with_capacity(text.len() + 4);
            d.push_str(&text[..*pos]);
            d.push(*ch);
            d.push_str(&text[*pos..]);
            v.push(d);
        }
    }
    v
}

fn corruption_programs(tier: Tier) -> Vec<String> {
    let ops = OpSet::builtin();
    let trees = program_trees(0);
    let step = tier.pick(7, 1);
    trees.iter().step_by(step).map(|t| parse::print(t, &ops, Parens::Minimal)).collect()
}

/// case i: kind = i % 3 (prefix, infix, postfix), primed = i >= 3, registration made by
/// another (joined) thread = i >= 6
fn registered_case(i: u64, out: &mut WorkerOut) {
    use crate::model::lex::InfixInfo;
    use expression_engine::{InfixOpAssociativity, InfixOpType};
    use std::sync::Arc;
    // cases 9..11: a long word (anything that bounds the length of a word operator)
    // cases 12..14: a word that starts with a character that is neither a letter nor one of the
    // operator-start characters
    if i >= 15 {
        // cases 15..17: one word registered in TWO roles (infix then postfix, postfix then infix,
        // prefix then infix), `not` in the token alphabet
        let (first, second) = [("infix", "postfix"), ("postfix", "infix"), ("prefix", "infix")][(i - 15) as usize];
        let word = "wop";
        let mut ops = OpSet::builtin();
        for kind in [first, second] {
            match kind {
                "prefix" => {
                    expression_engine::register_prefix_op(word, Arc::new(|v| Ok(v)));
                    ops.prefix.insert(word.into());
                }
                "infix" => {
                    expression_engine::register_infix_op(word, 105, InfixOpType::CALC, InfixOpAssociativity::LEFT, Arc::new(|a, _| Ok(a)));
                    ops.infix.insert(word.into(), InfixInfo { prec: 105, left: true, setter: false });
                }
                _ => {
                    expression_engine::register_postfix_op(word, Arc::new(|v| Ok(v)));
                    ops.postfix.insert(word.into());
                }
            }
        }
        let stage = format!("registered[{} then {}]", first, second);
        let seqs = TokenSeqs { alphabet: vec!["1", "x", word, "(", ")", ",", "+", ";", "not"], max_len: 5 };
        for j in 0..seqs.len() {
            let s = seqs.spaced(j);
            judge(&s, &ops, &stage, out);
            out.nontrivial.insert(hash64(&format!("{}{}", stage, s)));
        }
        out.count("states", 1);
        out.count("transitions", seqs.len());
        return;
    }
    let word = if i >= 12 { "~>" } else if i >= 9 { "startsWithAnyCaseInsensitive_v2" } else { "wop" };
    let kind = ["prefix", "infix", "postfix"][(i % 3) as usize];
    let primed = (3..9).contains(&i);
    let xthread = (6..9).contains(&i);
    let alphabet = ["1", "x", word, "(", ")", ",", "+", ";"];
    let seqs = TokenSeqs { alphabet: alphabet.to_vec(), max_len: 5 };
    let mut ops = OpSet::builtin();
    let stage = format!("registered[{}{}{}{}]", kind, if i >= 12 { ",word ~>" } else if i >= 9 { ",31-character word" } else { "" }, if primed { ",word parsed before registration" } else { "" }, if xthread { ",registered by another thread" } else { "" });
    if primed {
        // the word is an ordinary name for now
        for j in 0..seqs.len() {
            judge(&seqs.spaced(j), &ops, &stage, out);
        }
    }
    let reg = move || match kind {
        "prefix" => expression_engine::register_prefix_op(word, Arc::new(|v| Ok(v))),
        "infix" => expression_engine::register_infix_op(word, 105, InfixOpType::CALC, InfixOpAssociativity::LEFT, Arc::new(|a, _| Ok(a))),
        _ => expression_engine::register_postfix_op(word, Arc::new(|v| Ok(v))),
    };
    if xthread {
        std::thread::spawn(reg).join().expect("registration thread");
    } else {
        reg();
    }
    match kind {
        "prefix" => {
            ops.prefix.insert(word.into());
        }
        "infix" => {
            ops.infix.insert(word.into(), InfixInfo { prec: 105, left: true, setter: false });
        }
        _ => {
            ops.postfix.insert(word.into());
        }
    }
    for j in 0..seqs.len() {
        let s = seqs.spaced(j);
        judge(&s, &ops, &stage, out);
        out.nontrivial.insert(hash64(&format!("{}{}", kind, s)));
    }
    out.count("states", 1);
    out.count("transitions", seqs.len());
}

/// texts that are malformed number literals by construction (no grammar needed to say so)
fn malformed_numbers() -> Vec<String> {
    let mut lits = super::c09::invalid_literals();
    for n in 0..=70usize {
        lits.push(format!("1.{}e", "0".repeat(n)));
        lits.push(format!("1.{}.", "0".repeat(n + 1)));
        lits.push(format!("0.{}1e5", "0".repeat(n)));
        lits.push(format!("1.{}.5", "3".repeat(n + 1)));
        lits.push(format!("0.{}.e+5", "12345678901234567890123456789012345678901234567890123456789012345678901".chars().take(n + 1).collect::<String>()));
        lits.push(format!("{}e", "7".repeat(n + 1)));
        lits.push(format!("1{}", ".".repeat(n + 2)));
        lits.push(format!("{}.{}.{}", "1".repeat(n + 1), "2".repeat(n + 1), "3".repeat(n + 1)));
    }
    let mut v = Vec::new();
    for l in lits {
        v.push(format!("[1, {} + 2]", l));
        v.push(format!("f({})", l));
        v.push(format!("{} ; 1", l));
        v.push(l);
    }
    v
}

impl Prop for C05 {
    fn id(&self) -> &'static str {
        "C05"
    }
    fn plan(&self, tier: Tier) -> Plan {
        let mut stages = Vec::new();
        for (i, s) in seqs(tier).iter().enumerate() {
            stages.push(Stage {
                name: format!("tokens{}", i),
                len: s.len(),
                chunk: (s.len() / 64).max(2000),
                timeout: Duration::from_secs(1200),
                what: format!("all sequences of <= {} tokens over {} token spellings, space-separated and glued", s.max_len, s.alphabet.len()),
            });
        }
        let sw = sweep(tier);
        stages.push(Stage {
            name: "strings".into(),
            len: sw.len(),
            chunk: (sw.len() / 64).max(2000),
            timeout: Duration::from_secs(1200),
            what: format!("all strings of <= {} fragments (lexical malformations: quotes, numbers, multi-byte)", sw.max_len),
        });
        stages.push(Stage {
            name: "registered".into(),
            len: 18,
            chunk: 1,
            timeout: Duration::from_secs(300),
            what: "fresh process: {prefix, infix, postfix} word operator registered, with or without parsing text that contains the word beforehand (and, parsed beforehand, with the registration made by another thread); then every sequence of <= 5 tokens over {1, x, the word, (, ), ',', +, ;} judged under the extended table; cases 15-17: the word registered in two roles (infix + postfix in both orders, prefix + infix) with `not` in the alphabet".into(),
        });
        let n = corruption_programs(tier).len() as u64;
        stages.push(Stage {
            name: "corruptions".into(),
            len: n,
            chunk: (n / 20).max(20),
            timeout: Duration::from_secs(1200),
            what: "every single-token deletion / swap / replacement and single-character deletion / duplication of each valid program".into(),
        });
        let sww = sweep_wide(tier);
        stages.push(Stage {
            name: "strings-wide".into(),
            len: sww.len(),
            chunk: (sww.len() / 64).max(2000),
            timeout: Duration::from_secs(1200),
            what: format!("all strings of <= {} fragments over the alphabet extended by one representative per standard-library character class ({} fragments)", sww.max_len, sww.alphabet.len()),
        });
        stages.push(Stage {
            name: "schedules".into(),
            len: super::c13::accept_workloads().len() as u64,
            chunk: 1,
            timeout: Duration::from_secs(900),
            what: "malformed programs that are malformed only because a word is an operator, parsed while another thread re-registers that word with the role it already has, under the controlled scheduler: all schedules with <= 2 (3) preemptions; every parse must be rejected (accepted) as in every sequential order".into(),
        });
        stages.push(Stage {
            name: "malformed-numbers".into(),
            len: malformed_numbers().len() as u64,
            chunk: 400,
            timeout: Duration::from_secs(600),
            what: "number literals that are malformed by construction, whatever their length (a second decimal point, a letter glued to the digits, exponent notation with exponents at every type boundary; the malformation after 0..70 fraction digits, so also behind a mantissa that is already full): alone, as a list element, as an argument, as a statement; each must be rejected".into(),
        });
        Plan {
            stages,
            rule: "token sequences, fragment strings and single-edit corruptions of valid programs, each judged by the reference recogniser (lenient as the property is: optional ';', one trailing comma in list/map); \
                   non-trivial = >= 2 tokens, distinct = distinct token-kind sequence; both accepted and rejected inputs must occur"
                .into(),
            assumptions: vec![
                "the reference grammar resolves the optional-';' ambiguity greedily (an infix operator, `not` or `?` after an operand continues the expression)".into(),
                "a postfix operator may follow a prefix expression once (`- a ++ ++`), as in the engine's grammar; no property sentence defines it".into(),
            ],
            exhaustive: true,
            bound: format!("<= {} tokens over {} spellings; <= {} over the 16-spelling sub-alphabet; <= {} fragments; edit distance 1", tier.pick(5, 6), TOKENS.len(), tier.pick(6, 7), tier.pick(4, 5)),
            states_note: "states = inputs enumerated (nodes of the token / fragment trees + corrupted programs); transitions = one-token extensions or single edits".into(),
        }
    }
    fn run(&self, tier: Tier, stage: usize, a: u64, b: u64, out: &mut WorkerOut) {
        let ops = OpSet::builtin();
        let sq = seqs(tier);
        let track = |text: &str, out: &mut WorkerOut| {
            if let Ok(t) = lex(text, &ops) {
                if t.len() >= 2 {
                    out.nontrivial.insert(hash64(&kinds(&t)));
                }
            }
        };
        if stage < sq.len() {
            let name = format!("tokens{}", stage);
            for i in a..b {
            out.at(i);
                let spaced = sq[stage].spaced(i);
                judge(&spaced, &ops, &name, out);
                track(&spaced, out);
                let glued = sq[stage].glued(i);
                if glued != spaced {
                    judge(&glued, &ops, &name, out);
                }
                if i % 200_003 == 5 {
                    out.sample(show(&spaced));
                }
            }
            out.count("states", b - a);
            out.count("transitions", b - a);
            return;
        }
        if stage == sq.len() + 5 {
            let ms = malformed_numbers();
            for i in a..b {
                out.at(i);
                out.evals += 1;
                let t = &ms[i as usize];
                match engine::parse(t) {
                    Res::Err(_) => {
                        out.outcomes.insert("both-reject".into());
                        out.count("rejected", 1);
                    }
                    Res::Ok(ast) => out.fail("accepted-malformed:number", format!("malformed-numbers|{}", show(t)), format!("parse_expression returned {:?}", ast)),
                    Res::Panic(m) => out.fail(format!("panic:parse:{}", normalise_panic(&m)), format!("malformed-numbers|{}", show(t)), m),
                }
                out.nontrivial.insert(hash64(t));
            }
            out.count("states", b - a);
            out.count("transitions", b - a);
            return;
        }
        if stage == sq.len() + 4 {
            let ws = super::c13::accept_workloads();
            for i in a..b {
                out.at(i);
                super::c13::check_workload(&ws[i as usize], tier.pick(2, 3), Duration::from_secs(tier.pick(60, 600)), out);
            }
            return;
        }
        if stage == sq.len() {
            let sw = sweep(tier);
            for i in a..b {
            out.at(i);
                let s = sw.get(i);
                judge(&s, &ops, "strings", out);
                track(&s, out);
            }
            out.count("states", b - a);
            out.count("transitions", b - a);
            return;
        }
        if stage == sq.len() + 1 {
            for i in a..b {
                out.at(i);
                registered_case(i, out);
            }
            return;
        }
        if stage == sq.len() + 3 {
            let sw = sweep_wide(tier);
            for i in a..b {
                out.at(i);
                let s = sw.get(i);
                judge(&s, &ops, "strings-wide", out);
                track(&s, out);
            }
            out.count("states", b - a);
            out.count("transitions", b - a);
            return;
        }
        let progs = corruption_programs(tier);
        for i in a..b {
            out.at(i);
            let p = &progs[i as usize];
            if !judge(p, &ops, "corruptions", out) {
                out.fail("generator:valid-program-rejected-by-model", format!("corruptions|{}", show(p)), "model rejects a generated program");
            }
            for c in corruptions(p, &ops) {
                judge(&c, &ops, "corruptions", out);
                track(&c, out);
                out.count("transitions", 1);
            }
            out.count("states", 1);
            if i % 997 == 3 {
                out.sample(format!("corruptions of {}", show(p)));
            }
        }
    }
    fn case_text(&self, tier: Tier, stage: usize, i: u64) -> String {
        let sq = seqs(tier);
        if stage < sq.len() {
            return show(&sq[stage].spaced(i));
        }
        if stage == sq.len() {
            return show(&sweep(tier).get(i));
        }
        if stage == sq.len() + 1 {
            return format!("registered case {}", i);
        }
        if stage == sq.len() + 3 {
            return show(&sweep_wide(tier).get(i));
        }
        if stage == sq.len() + 4 {
            return super::c13::accept_workloads()[i as usize].name.to_string();
        }
        if stage == sq.len() + 5 {
            return show(&malformed_numbers()[i as usize]);
        }
        show(&corruption_programs(tier)[i as usize])
    }
    fn min_outcomes(&self) -> usize {
        2
    }
}
