//! C15 — a failing or panicking handler is contained. Fault enumeration: every program of
//! the effects set x every handler invocation index k x {return Err, panic}; afterwards the
//! registries, other threads and the same context must behave as if the evaluation had just
//! stopped there.
use super::c02::shape_key;
use super::effects::*;
use crate::core::*;
use crate::engine::{guarded, Res};
use crate::gen::show;
use expression_engine::{parse_expression, Context, Value};
use rust_decimal::Decimal;
use std::time::Duration;

pub struct C15;

fn level(tier: Tier) -> usize {
    tier.pick(1, 2)
}

fn max_nodes(tier: Tier) -> usize {
    tier.pick(3, 4)
}

const BATTERY: &[&str] = &[
    "1 + 2 * 3",
    "min(4, 5) + max(1, 2) + sum(1, 2) + mul(2, 3)",
    "not true || ! false",
    "- 1 ++",
    "gf(7, 8)",
    "lg 5",
    "6 lop 7",
    "8 lpo",
    "[1] in [[1]]",
    "x = 3 ; x += 4 ; x",
    "AND [true, true] && OR [false, true]",
    "'ab' beginWith 'a' ? 1 << 3 : 0",
];

/// after a returned error nothing can be poisoned (no unwinding took place): three
/// expressions that touch the function, operator and context paths are asked again; after a
/// panic, all of them
const SHORT: &[usize] = &[1, 4, 9];

fn battery() -> Vec<String> {
    battery_of(&(0..BATTERY.len()).collect::<Vec<_>>())
}

fn battery_of(which: &[usize]) -> Vec<String> {
    which
        .iter()
        .map(|i| BATTERY[*i])
        .map(|p| {
            let r = guarded(|| {
                let ast = parse_expression(p).map_err(|e| format!("parse: {:?}", e))?;
                ast.exec(&mut Context::new()).map_err(|e| format!("{:?}", e))
            });
            format!("{:?}", r)
        })
        .collect()
}

fn fault_site(entry: &str, text: &str) -> String {
    let name = entry.split('(').next().unwrap_or("");
    match name {
        "gf" => "global-function".into(),
        "cf" => "context-function-call".into(),
        "lg" => "prefix-operator".into(),
        "lop" => "infix-operator".into(),
        "lset" => "setter-operator".into(),
        "lpo" => "postfix-operator".into(),
        n => {
            if text.contains(&format!("{}()", n)) {
                "context-function-call".into()
            } else {
                "context-function-bare-name".into()
            }
        }
    }
}

/// true if everything is still healthy
fn aftermath(ctx: &mut Context, expected: &[String], fk: &str, site: &str, case: &str, other_thread: bool, out: &mut WorkerOut) -> bool {
    let mut healthy = true;
    // (b) the same context keeps working
    let same_ctx = guarded(|| {
        // (names no program of the set assigns to)
        let _ = ctx.get("v");
        ctx.set_variable("zy", Value::Number(Decimal::from(100)));
        let v = ctx.get_variable("zy");
        ctx.set_variable("zz", Value::Number(Decimal::from(5)));
        let ast = parse_expression("zy + zz").map_err(|e| format!("{:?}", e))?;
        let r = ast.exec(ctx).map_err(|e| format!("{:?}", e))?;
        Ok((v, r))
    });
    match same_ctx {
        Res::Ok((Some(v), r)) if v == Value::Number(Decimal::from(100)) && r == Value::Number(Decimal::from(105)) => {
            out.outcomes.insert("aftermath-context-ok".into());
        }
        other => {
            healthy = false;
            out.fail(format!("aftermath:context-unusable:{}:{}", fk, site), case, format!("later use of the same context: {:?}", other));
        }
    }
    // (a) every registry still answers
    let which: Vec<usize> = if fk == "panic" { (0..BATTERY.len()).collect() } else { SHORT.to_vec() };
    let now = battery_of(&which);
    for (i, g) in which.iter().copied().zip(&now) {
        let w = &expected[i];
        if w != g {
            healthy = false;
            out.fail(format!("aftermath:registry:{}:{}:{}", fk, site, BATTERY[i].split_whitespace().next().unwrap_or("")), case, format!("{:?} now gives {} (before: {})", BATTERY[i], g, w));
            break;
        }
    }
    // (c) and for another thread too
    // (a poisoned lock is what a new thread would trip over, so this matters after panics)
    let exp2 = expected.to_vec();
    let other = !other_thread || std::thread::spawn(move || battery() == exp2).join().unwrap_or(false);
    if !other {
        healthy = false;
        out.fail(format!("aftermath:other-thread:{}:{}", fk, site), case, "a second thread does not get the pre-fault results");
    }
    out.count("validated", 3);
    healthy
}

impl Prop for C15 {
    fn id(&self) -> &'static str {
        "C15"
    }
    fn plan(&self, tier: Tier) -> Plan {
        let n = Programs::new(level(tier)).len();
        Plan {
            stages: vec![Stage {
                name: "faults".into(),
                len: n,
                chunk: (n / 48).max(10),
                timeout: Duration::from_secs(1200),
                what: "program x handler invocation index k x {Err, panic}, each followed by the aftermath checks".into(),
            }],
            rule: format!(
                "fault enumeration: every program of the effects set (<= 3 inner nodes over 16 kinds, thorough: plus exactly 4 over 10 kinds; this run: max {} nodes; all handler kinds: context function by call and by bare name, global function, registered prefix / infix / setter / postfix operators) x every invocation index k x {{return Err, panic}}. \
                 Oracle: log = reference log truncated after k; Err => Err, panic => reaches the caller as an unwind; then a 12-expression battery over all four registries (3 of them after a returned error, where no unwinding took place) gives its pre-fault results (this thread and a new thread), and the same context answers get / get_variable / set_variable / exec and holds the reference bindings. distinct = distinct (program) with >= 1 handler invocation",
                max_nodes(tier)
            ),
            assumptions: vec!["a worker stops at the first aftermath failure (later cases in that process would be contaminated); the cases it did not reach are not counted".into()],
            exhaustive: true,
            bound: format!("<= {} inner nodes; every fault position; both fault kinds", max_nodes(tier)),
            states_note: "states = programs; transitions = (program, k, fault kind) executions".into(),
        }
    }
    fn run(&self, tier: Tier, _stage: usize, a: u64, b: u64, out: &mut WorkerOut) {
        let world = install();
        let expected = battery();
        let progs = Programs::new(level(tier));
        for i in a..b {
            out.at(i);
            // the quick tier leaves out three leaf styles that only vary which branch a condition
            // selects / repeat one leaf (they matter for evaluation order, C07, not for containment)
            if tier == Tier::Quick && matches!(progs.style_of(i), Some("mixed-false") | Some("repeat") | Some("repeat-bare")) {
                continue;
            }
            let ast = &progs.get(i);
            let text = print_program(ast, &world);
            let key = shape_key(ast, &world.ops);
            let base = run_model(ast, &world, Fault::None, 0);
            let n = base.log.len();
            if n >= 1 {
                out.nontrivial.insert(hash64(&text));
            }
            for k in 0..n {
                let site = fault_site(&base.log[k], &text);
                for (fault, fk) in [(Fault::Err, "err"), (Fault::ErrNested, "err-nested"), (Fault::Panic, "panic")] {
                    // the engine's own error kinds matter where the engine might react to them:
                    // function dispatch (context, then global, then "not registered")
                    if fault == Fault::ErrNested && !site.contains("function") {
                        continue;
                    }
                    let case = format!("faults|{} fault={}@{}", show(&text), fk, k);
                    let (mut ctx, _, _) = compare_run(ast, &text, &world, fault, k, &format!("{}:{}", site, key), &case, out);
                    out.outcomes.insert(format!("site:{}", site));
                    // a second thread is consulted after the last panic of each program (lock
                    // poisoning is per mutex, not per thread: this thread's checks see it first)
                    let last = k + 1 == n && fault == Fault::Panic;
                    if !aftermath(&mut ctx, &expected, fk, &site, &case, last, out) {
                        out.count("stopped_after_contamination", 1);
                        return;
                    }
                    out.count("transitions", 1);
                }
            }
            out.count("states", 1);
            if i % 503 == 1 {
                out.sample(format!("{} with a fault at each of {:?}", text, base.log));
            }
        }
    }
    fn case_text(&self, tier: Tier, _stage: usize, i: u64) -> String {
        let world = install();
        show(&print_program(&Programs::new(level(tier)).get(i), &world))
    }
    fn min_outcomes(&self) -> usize {
        4
    }
}
