mod core;
mod engine;
mod gen;
mod model;
mod props;
mod sched;

use crate::core::*;
use std::time::Instant;

fn usage() -> ! {
    eprintln!("usage: vh check <ID> <quick|thorough> | vh worker <ID> <tier> <stage> <a> <b> | vh replay <ID> <file> | vh list");
    std::process::exit(2)
}

fn main() {
    let args: Vec<String> = std::env::args().collect();
    if args.len() < 2 {
        usage();
    }
    match args[1].as_str() {
        "list" => {
            for p in props::all() {
                println!("{}", p.id());
            }
        }
        "check" => {
            if args.len() < 4 {
                usage();
            }
            let p = props::find(&args[2]).unwrap_or_else(|| usage());
            let tier = Tier::parse(&args[3]);
            let t0 = Instant::now();
            let plan = p.plan(tier);
            let jobs = std::env::var("VERIF_JOBS").ok().and_then(|s| s.parse().ok()).unwrap_or_else(|| std::thread::available_parallelism().map(|n| n.get()).unwrap_or(8).clamp(2, 32));
            let res = orchestrate(p, tier, &plan, jobs);
            let extra = props::extra_evidence(p.id(), tier, &res);
            let v = finish(p.id(), tier, &plan, res, t0.elapsed().as_secs_f64(), p.min_outcomes(), extra);
            std::process::exit(v.exit);
        }
        "worker" => {
            if args.len() < 7 {
                usage();
            }
            install_quiet_panic_hook();
            let p = props::find(&args[2]).unwrap_or_else(|| usage());
            let tier = Tier::parse(&args[3]);
            let stage: usize = args[4].parse().unwrap();
            let a: u64 = args[5].parse().unwrap();
            let b: u64 = args[6].parse().unwrap();
            let mut out = WorkerOut::default();
            out.stage = Some(stage);
            WORKER_FAIL_CAP.store(5000, std::sync::atomic::Ordering::Relaxed);
            let _ = KNOWN_OPEN_KEYS.set(load_known(&format!("{}/known_findings.txt", verif_root())).into_iter().filter(|k| k.status == "open" && k.property == p.id()).map(|k| k.key).collect());
            if b - a > 1 {
                // watchdog: name the case this process is sitting on instead of making the parent
                // wait for the chunk's wall cap and bisect
                std::thread::spawn(|| loop {
                    std::thread::sleep(std::time::Duration::from_millis(250));
                    let i = CURRENT_CASE.load(std::sync::atomic::Ordering::Relaxed);
                    let since = CURRENT_SINCE_MS.load(std::sync::atomic::Ordering::Relaxed);
                    if i != u64::MAX && now_ms().saturating_sub(since) > STUCK_SECS * 1000 {
                        println!("WORKER-STUCK {}", i);
                        use std::io::Write;
                        let _ = std::io::stdout().flush();
                        std::process::exit(3);
                    }
                });
            }
            p.run(tier, stage, a, b, &mut out);
            println!("WORKER-RESULT {}", out.to_json());
        }
        "case" => {
            // print the text of one case (debugging aid)
            let p = props::find(&args[2]).unwrap_or_else(|| usage());
            let tier = Tier::parse(&args[3]);
            println!("{}", p.case_text(tier, args[4].parse().unwrap(), args[5].parse().unwrap()));
        }
        "replay" => {
            if args.len() < 4 {
                usage();
            }
            install_quiet_panic_hook();
            std::process::exit(props::replay(&args[2], &args[3]));
        }
        "child" => {
            install_quiet_panic_hook();
            std::process::exit(props::child(&args[2..]));
        }
        _ => usage(),
    }
}
