// scratch probe: parse / execute every line of stdin, print the outcome
use std::io::BufRead;
fn main() {
    for line in std::io::stdin().lock().lines() {
        let line = line.unwrap();
        let r = std::panic::catch_unwind(|| expression_engine::parse_expression(&line).map(|t| format!("{:?}", t.expr())).map_err(|e| format!("{:?}", e)));
        let e = std::panic::catch_unwind(|| expression_engine::execute(&line, expression_engine::Context::new()).map_err(|e| format!("{:?}", e)));
        let show = |s: String| s.chars().take(150).collect::<String>();
        println!("{} => parse {} | execute {}", show(line.clone()), show(format!("{:?}", r)), show(format!("{:?}", e)));
    }
}
